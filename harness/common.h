// Shared driver code of every harness binary: run loop, record / replay, fork-based minimiser, result protocol.
// A harness translation unit defines the functions declared in namespace hx and includes this header once.
#pragma once
#include <fcntl.h>
#include <signal.h>
#include <sys/mman.h>
#include <sys/stat.h>
#include <sys/syscall.h>
#include <sys/wait.h>
#include <unistd.h>

#include <algorithm>
#include <cstdio>
#include <cstdlib>
#include <cstring>
#include <exception>
#include <functional>
#include <map>
#include <set>
#include <string>
#include <vector>

#include "../sim/detsim.h"
#include "../sim/json.h"

// ------------------------------------------------------------------------------------------------ harness interface
namespace hx {
extern const char* NAME;                        // e.g. "resource_sim"
// Draw a program and the simulator knobs for one run. `gen` is the generation stream (independent of scheduling).
void generate(sim::Rng& gen, const std::string& prop, const std::string& tier, Json& program, sim::Config& cfg);
// Execute the program under the simulator and evaluate the oracles of `prop`. Violations go through sim::violation().
void execute(const Json& program, const sim::Config& cfg, const std::string& prop);
// Smaller variants of a program (each must be a valid program).
std::vector<Json> shrink(const Json& program);
// Does violation class `cls` belong to property `prop`?
bool owns(const std::string& prop, const std::string& cls);
// One-line human description of a program.
std::string describe(const Json& program);
// Harness specific counters for the evidence (names -> values), reset by the caller through clear_extra().
std::map<std::string, uint64_t>& extra();
// Pretty name of an event kind >= 100 (for traces)
const char* event_name(int kind);
}  // namespace hx

extern "C" void __sanitizer_set_death_callback(void (*)(void)) __attribute__((weak));

namespace drv {

// ------------------------------------------------------------------------------------------------ helpers
inline uint64_t fnv(const std::string& s) {
    uint64_t h = 1469598103934665603ull;
    for (unsigned char c : s) { h ^= c; h *= 1099511628211ull; }
    return h;
}
inline std::string hex(uint64_t v) { char b[20]; snprintf(b, sizeof b, "%016llx", (unsigned long long)v); return b; }

inline Json cfg_to_json(const sim::Config& c) {
    Json j = Json::object();
    j.set("sched_seed", Json((uint64_t)(c.sched_seed & 0x7fffffffffffffffull)));
    j.set("strategy", c.strategy).set("sticky_p", c.sticky_p).set("pct_depth", c.pct_depth).set("len_guess", c.len_guess);
    j.set("starve_victims", c.starve_victims).set("starve_window", c.starve_window);
    j.set("spurious_rate", c.spurious_rate).set("random_signal", c.random_signal);
    j.set("clock_jump_rate", c.clock_jump_rate).set("clock_jump_ms", (int64_t)c.clock_jump_ms).set("create_fail_rate", c.create_fail_rate);
    j.set("clock_step_max_ms", c.clock_step_max_ms).set("step_cap", c.step_cap).set("post_op_points", c.post_op_points).set("atomic_points", c.atomic_points);
    return j;
}
inline sim::Config cfg_from_json(const Json& j) {
    sim::Config c;
    c.sched_seed = (uint64_t)j.get("sched_seed", 1);
    c.strategy = (int)j.get("strategy", 0);
    c.sticky_p = j.getd("sticky_p", 0.8);
    c.pct_depth = (int)j.get("pct_depth", 2);
    c.len_guess = (int)j.get("len_guess", 300);
    c.starve_victims = (int)j.get("starve_victims", 1);
    c.starve_window = (int)j.get("starve_window", 60);
    c.spurious_rate = j.getd("spurious_rate", 0);
    c.random_signal = j.has("random_signal") && j.at("random_signal").b;
    c.clock_jump_rate = j.getd("clock_jump_rate", 0);
    c.clock_jump_ms = j.get("clock_jump_ms", 0);
    c.create_fail_rate = j.getd("create_fail_rate", 0);
    c.clock_step_max_ms = (int)j.get("clock_step_max_ms", 2);
    c.step_cap = (int)j.get("step_cap", 20000);
    c.post_op_points = !j.has("post_op_points") || j.at("post_op_points").b;
    c.atomic_points = !j.has("atomic_points") || j.at("atomic_points").b;
    return c;
}
inline std::string decisions_to_string(const std::vector<sim::Decision>& d) {
    std::string s;
    for (auto& x : d) { if (!s.empty()) s += ' '; s += x.kind; s += std::to_string(x.val); }
    return s;
}
inline std::vector<sim::Decision> decisions_from_string(const std::string& s) {
    std::vector<sim::Decision> d;
    size_t p = 0;
    while (p < s.size()) {
        while (p < s.size() && (s[p] == ' ' || s[p] == '\n')) p++;
        if (p >= s.size()) break;
        char k = s[p++];
        char* end;
        long v = strtol(s.c_str() + p, &end, 10);
        p = end - s.c_str();
        d.push_back({k, (int32_t)v});
    }
    return d;
}

inline const char* sim_event_name(int k) {
    switch (k) {
        case sim::EV_CREATE: return "create";
        case sim::EV_START: return "start";
        case sim::EV_EXIT: return "exit";
        case sim::EV_PARK: return "park(cond)";
        case sim::EV_WAKE: return "wake";
        case sim::EV_MBLOCK: return "block(mutex)";
        case sim::EV_JOINBLOCK: return "block(join)";
        case sim::EV_SIGNAL: return "signal";
        case sim::EV_CLOCKJUMP: return "clock-jump";
        case sim::EV_SLEEP: return "sleep";
        case sim::EV_FUTEX_WAIT: return "block(futex)";
        case sim::EV_FUTEX_WAKE: return "futex-wake";
    }
    return hx::event_name(k);
}
inline Json events_to_json(size_t max = 400) {
    Json a = Json::array();
    auto& ev = sim::events();
    size_t from = ev.size() > max ? ev.size() - max : 0;
    for (size_t i = from; i < ev.size(); i++) {
        char b[128];
        snprintf(b, sizeof b, "#%u T%d %s a=%d b=%d", ev[i].seq, ev[i].tid, sim_event_name(ev[i].kind), ev[i].a, ev[i].b);
        a.push(Json(b));
    }
    return a;
}

inline void write_file(const std::string& path, const std::string& text) {
    std::string tmp = path + ".tmp";
    FILE* f = fopen(tmp.c_str(), "wb");
    if (!f) { fprintf(stderr, "cannot write %s\n", tmp.c_str()); _exit(13); }
    fwrite(text.data(), 1, text.size(), f);
    fclose(f);
    rename(tmp.c_str(), path.c_str());
}
inline std::string read_file(const std::string& path) {
    FILE* f = fopen(path.c_str(), "rb");
    if (!f) return "";
    std::string t; char buf[65536]; size_t n;
    while ((n = fread(buf, 1, sizeof buf, f)) > 0) t.append(buf, n);
    fclose(f);
    return t;
}

// ------------------------------------------------------------------------------------------------ options / globals
struct Opts {
    std::string prop, tier = "quick", mode, out, file, flavour = "A";
    uint64_t seed = 1;
    long from = 0, to = 0, stride = 1, offset = 0, idx = 0;
    bool verbose = false;
    int fresh_tries = 24;
};
inline Opts g_opts;

// the run in progress (for sinks and death callbacks)
struct Current {
    long idx = -1;
    uint64_t run_seed = 0;
    Json program;
    sim::Config cfg;
    std::string result_path;   // single-run modes: where to write the outcome
    bool in_loop = false;
};
inline Current g_cur;

inline uint64_t run_seed_of(uint64_t seed, long idx) { return sim::mix(seed, (uint64_t)idx) & 0x7fffffffffffffffull; }

inline void make_case(const std::string& prop, const std::string& tier, uint64_t seed, long idx, Json& program, sim::Config& cfg) {
    uint64_t rs = run_seed_of(seed, idx);
    sim::Rng gen(sim::mix(rs, 0x67656E));  // generation stream
    cfg = sim::Config();
    cfg.sched_seed = sim::mix(rs, 0x736368) & 0x7fffffffffffffffull;  // schedule stream
    hx::generate(gen, prop, tier, program, cfg);
}

// Swarm choice of scheduler strategy and generic fault knobs, shared by the thread harnesses.
inline void draw_sched(sim::Rng& g, sim::Config& c, bool allow_spurious, int len_guess) {
    int s = (int)g.below(10);
    c.strategy = s < 3 ? sim::UNIFORM : s < 6 ? sim::STICKY : s < 8 ? sim::PCT : sim::STARVE;
    static const double sp[] = {0.5, 0.8, 0.95};
    c.sticky_p = sp[g.below(3)];
    c.pct_depth = 1 + (int)g.below(3);
    c.len_guess = len_guess;
    c.starve_victims = 1 + (int)g.below(2);
    c.starve_window = 10 + (int)g.below((uint32_t)std::max(10, len_guess));
    static const double sr[] = {0, 0, 0.02, 0.1};
    c.spurious_rate = allow_spurious ? sr[g.below(4)] : 0.0;
    c.random_signal = g.below(2) == 1;
}

// ------------------------------------------------------------------------------------------------ outcome of one run
struct Outcome {
    std::string status = "ok";   // ok | violation | deadlock | stepcap | sanitizer | hang | crash
    std::string vclass, detail;
    uint64_t event_hash = 0, sched_hash = 0;
    uint32_t steps = 0;
    bool diverged = false;
    std::vector<sim::Decision> decisions;
};

inline Json outcome_json(const Outcome& o) {
    Json j = Json::object();
    j.set("status", o.status).set("class", o.vclass).set("detail", o.detail);
    j.set("event_hash", hex(o.event_hash)).set("sched_hash", hex(o.sched_hash)).set("steps", o.steps).set("diverged", o.diverged);
    return j;
}

inline Json replay_json(const Json& program, const sim::Config& cfg, const Outcome& o, bool with_log) {
    Json j = Json::object();
    j.set("format", "tulz-detsim-replay-1");
    j.set("property", g_opts.prop).set("harness", hx::NAME).set("flavour", g_opts.flavour).set("tier", g_opts.tier);
    j.set("verif_seed", (uint64_t)g_opts.seed).set("run_index", (int64_t)g_cur.idx);
    j.set("describe", hx::describe(program));
    j.set("program", program);
    j.set("cfg", cfg_to_json(cfg));
    j.set("decisions", decisions_to_string(o.decisions));
    j.set("result", outcome_json(o));
    if (with_log) j.set("log_tail", events_to_json());
    return j;
}

inline Outcome outcome_now(const std::string& status, const std::string& cls, const std::string& detail) {
    Outcome o;
    o.status = status; o.vclass = cls; o.detail = detail;
    auto& st = sim::stats();
    o.event_hash = st.event_hash; o.sched_hash = st.sched_hash; o.steps = st.steps; o.diverged = st.diverged;
    o.decisions = sim::decisions();
    return o;
}

// ------------------------------------------------------------------------------------------------ aggregated statistics (loop mode)
struct Agg {
    uint64_t runs = 0, nontrivial = 0, steps = 0, choice_points = 0, switches = 0, threads = 0;
    uint64_t create_failures = 0, spurious = 0, signal_choices = 0, clock_jumps = 0, late_starts = 0, starved_steps = 0, mutex_contended = 0, cond_parks = 0, atomic_points = 0;
    uint64_t runs_spurious = 0, runs_random_signal = 0, runs_clock_jump = 0;
    int64_t sim_ms = 0;
    uint64_t strat[4] = {0, 0, 0, 0};
    std::vector<Json> samples;
};
inline Agg g_agg;

inline void print_summary() {
    Json j = Json::object();
    auto& a = g_agg;
    j.set("runs", a.runs).set("nontrivial", a.nontrivial).set("steps", a.steps).set("choice_points", a.choice_points);
    j.set("switches", a.switches).set("threads", a.threads).set("sim_ms", (int64_t)a.sim_ms);
    Json f = Json::object();
    f.set("spurious_wakeup", a.spurious).set("signal_nonfifo_target", a.signal_choices).set("clock_jump", a.clock_jumps);
    f.set("late_thread_start", a.late_starts).set("starved_thread_steps", a.starved_steps).set("pthread_create_eagain", a.create_failures);
    j.set("faults_fired", f);
    Json fr = Json::object();
    fr.set("spurious_wakeup", a.runs_spurious).set("random_signal_target", a.runs_random_signal).set("clock_jump", a.runs_clock_jump);
    j.set("runs_with_fault_enabled", fr);
    j.set("mutex_contended", a.mutex_contended).set("cond_parks", a.cond_parks).set("atomic_scheduling_points", a.atomic_points);
    Json st = Json::object();
    st.set("uniform", a.strat[0]).set("sticky", a.strat[1]).set("pct", a.strat[2]).set("starve", a.strat[3]);
    j.set("strategy_runs", st);
    Json ex = Json::object();
    for (auto& kv : hx::extra()) ex.set(kv.first, kv.second);
    j.set("extra", ex);
    Json sm = Json::array();
    for (auto& s : a.samples) sm.push(s);
    j.set("samples", sm);
    printf("SUMMARY %s\n", j.dump().c_str());
    fflush(stdout);
}

// Leave without running ThreadSanitizer's exit hooks ("finished with ignores enabled" would turn the exit code into 66).
[[noreturn]] inline void hard_exit(int code) {
    fflush(stdout);
    fflush(stderr);
    syscall(SYS_exit_group, code);
    __builtin_unreachable();
}

// ------------------------------------------------------------------------------------------------ sinks
inline void finish_single(const Outcome& o, int code) {
    if (!g_cur.result_path.empty()) write_file(g_cur.result_path, replay_json(g_cur.program, g_cur.cfg, o, true).dump());
    printf("RESULT status=%s class=%s eh=%s steps=%u diverged=%d detail=%s\n", o.status.c_str(), o.vclass.c_str(), hex(o.event_hash).c_str(), o.steps,
           (int)o.diverged, o.detail.c_str());
    hard_exit(code);
}

inline void fatal_sink(const sim::Fatal& f) {
    std::string status = f.kind == "stepcap" ? "stepcap" : "violation";
    Outcome o = outcome_now(status, f.vclass, f.detail);
    int code = status == "stepcap" ? 3 : 10;
    if (g_cur.in_loop) {
        printf("V idx=%ld seed=%llu status=%s class=%s owned=%d detail=%s\n", g_cur.idx, (unsigned long long)g_cur.run_seed, status.c_str(), f.vclass.c_str(),
               (int)hx::owns(g_opts.prop, f.vclass), f.detail.c_str());
        print_summary();
        hard_exit(code);
    }
    finish_single(o, code);
}

inline void death_callback() {
    // sanitizer report has been printed to stderr; say which run it was
    if (g_cur.in_loop) {
        printf("V idx=%ld seed=%llu status=sanitizer class=sanitizer owned=1 detail=\n", g_cur.idx, (unsigned long long)g_cur.run_seed);
        fflush(stdout);
    }
}

inline void on_alarm(int) {
    const char msg[] = "HANG\n";
    (void)!write(1, msg, sizeof msg - 1);
    syscall(SYS_exit_group, 14);
}

inline void on_terminate() {
    std::string what = "std::terminate";
    if (auto e = std::current_exception()) {
        try { std::rethrow_exception(e); } catch (const std::exception& ex) { what += std::string(": ") + ex.what(); } catch (...) { what += ": unknown exception"; }
    }
    if (sim::active()) sim::violation("terminate", what);
    fprintf(stderr, "%s\n", what.c_str());
    _exit(13);
}

inline void install_handlers() {
    sim::set_fatal_sink(fatal_sink);
    std::set_terminate(on_terminate);
    signal(SIGALRM, on_alarm);
    if (__sanitizer_set_death_callback) __sanitizer_set_death_callback(death_callback);
}

// ------------------------------------------------------------------------------------------------ executing one case in this process
inline void run_case(const Json& program, const sim::Config& cfg) {
    alarm(60);
    hx::execute(program, cfg, g_opts.prop);
    alarm(0);
}

// ------------------------------------------------------------------------------------------------ loop mode
inline int loop_mode() {
    auto& o = g_opts;
    g_cur.in_loop = true;
    std::set<uint64_t> seen;
    for (long idx = o.from + o.offset; idx < o.to; idx += o.stride) {
        Json program; sim::Config cfg;
        make_case(o.prop, o.tier, o.seed, idx, program, cfg);
        g_cur.idx = idx; g_cur.run_seed = run_seed_of(o.seed, idx); g_cur.program = program; g_cur.cfg = cfg;
        run_case(program, cfg);
        auto& st = sim::stats();
        uint64_t ph = fnv(program.dump());
        bool nontrivial = st.choice_points > 0 || st.spurious > 0 || st.clock_jumps > 0 || st.harness_nontrivial > 0 || st.create_failures > 0;
        // R <idx> <program-hash> <schedule-hash> <event-hash> <steps> <nontrivial>
        printf("R %ld %s %s %s %u %d\n", idx, hex(ph).c_str(), hex(st.sched_hash).c_str(), hex(st.event_hash).c_str(), st.steps, (int)nontrivial);
        auto& a = g_agg;
        a.runs++; a.nontrivial += nontrivial; a.steps += st.steps; a.choice_points += st.choice_points; a.switches += st.switches; a.threads += st.threads;
        a.create_failures += st.create_failures; a.spurious += st.spurious; a.signal_choices += st.signal_choices; a.clock_jumps += st.clock_jumps; a.late_starts += st.late_starts;
        a.starved_steps += st.starved_steps; a.mutex_contended += st.mutex_contended; a.cond_parks += st.cond_parks; a.sim_ms += st.sim_ms; a.atomic_points += st.atomic_points;
        a.runs_spurious += cfg.spurious_rate > 0; a.runs_random_signal += cfg.random_signal; a.runs_clock_jump += cfg.clock_jump_rate > 0;
        a.strat[cfg.strategy & 3]++;
        if (a.samples.size() < 2 && nontrivial) {
            Json s = Json::object();
            s.set("run_index", (int64_t)idx).set("program", hx::describe(program)).set("cfg", cfg_to_json(cfg));
            std::string d = decisions_to_string(sim::decisions());
            if (d.size() > 300) d = d.substr(0, 300) + " ...";
            s.set("decisions", d).set("steps", st.steps).set("event_hash", hex(st.event_hash));
            a.samples.push_back(s);
        }
        if (a.runs % 2000 == 0) print_summary();
    }
    print_summary();
    fflush(stdout);
    return 0;
}

// ------------------------------------------------------------------------------------------------ running a candidate in a forked child
// The child executes (program, cfg) and writes its outcome to `path`; sanitizer output goes to `path`.err.
// While it runs, decisions are not streamed: a child that dies in a sanitizer leaves status "sanitizer" and the
// parent re-derives the decisions by replaying with the same script (deterministic), so only the class is needed.
inline std::string sanitizer_class(const std::string& errtext) {
    size_t p = errtext.find("SUMMARY: ");
    if (p == std::string::npos) return "";
    size_t e = errtext.find('\n', p);
    std::string line = errtext.substr(p + 9, e == std::string::npos ? std::string::npos : e - p - 9);
    // "AddressSanitizer: heap-use-after-free /path/file.h:56 in func" -> "asan:heap-use-after-free in func"
    std::string tool = line.substr(0, line.find(':'));
    std::string rest = line.substr(line.find(':') + 2);
    // kind = the words before the first token that looks like a location ("/path", "../path", "0x...", "(...")
    std::string kind, func;
    {
        size_t p = 0;
        while (p < rest.size()) {
            size_t e = rest.find(' ', p);
            std::string tok = rest.substr(p, e == std::string::npos ? std::string::npos : e - p);
            if (tok.find('/') != std::string::npos || tok.rfind("0x", 0) == 0 || tok.rfind("(", 0) == 0 || tok == "in") break;
            kind += (kind.empty() ? "" : " ") + tok;
            if (e == std::string::npos) break;
            p = e + 1;
        }
    }
    size_t in = rest.find(" in ");
    if (in != std::string::npos) func = rest.substr(in + 4);
    size_t par = func.find('(');
    if (par != std::string::npos) func = func.substr(0, par);
    std::string t = tool == "AddressSanitizer" ? "asan" : tool == "ThreadSanitizer" ? "tsan" : tool == "UndefinedBehaviorSanitizer" ? "ubsan" : tool;
    return t + ":" + kind + (func.empty() ? "" : " in " + func);
}

struct Cand {
    Json program;
    sim::Config cfg;
};

inline Outcome read_outcome(const std::string& path, int wst) {
    Outcome o;
    std::string text = read_file(path);
    if (!text.empty()) {
        Json j = Json::parse(text);
        const Json& r = j.at("result");
        o.status = r.at("status").s; o.vclass = r.at("class").s; o.detail = r.at("detail").s;
        o.event_hash = strtoull(r.at("event_hash").s.c_str(), nullptr, 16);
        o.sched_hash = strtoull(r.at("sched_hash").s.c_str(), nullptr, 16);
        o.steps = (uint32_t)r.at("steps").num(); o.diverged = r.at("diverged").b;
        o.decisions = decisions_from_string(j.at("decisions").s);
        return o;
    }
    int code = WIFEXITED(wst) ? WEXITSTATUS(wst) : 128 + WTERMSIG(wst);
    std::string errtext = read_file(path + ".err");
    if (code == 77 || code == 66 || errtext.find("SUMMARY: ") != std::string::npos) {
        o.status = "sanitizer"; o.vclass = sanitizer_class(errtext);
        o.decisions = decisions_from_string(read_file(path + ".trace"));
        size_t p = errtext.find("SUMMARY: ");
        size_t e = errtext.find('\n', p);
        o.detail = errtext.substr(p, e == std::string::npos ? std::string::npos : e - p);
    } else if (code == 14) {
        o.status = "hang"; o.vclass = "hang";
    } else if (code == 0) {
        o.status = "ok";
    } else {
        o.status = "crash"; o.vclass = "crash:" + std::to_string(code);
        o.detail = errtext.substr(0, 300);
    }
    return o;
}

inline bool failing(const Outcome& o) { return o.status == "violation" || o.status == "sanitizer" || o.status == "crash"; }

// Runs the candidates in order inside ONE forked child for as long as they pass (a failing run cannot be unwound, it
// ends the child).  Returns the index of the first candidate whose outcome satisfies `want` (-1: none), and its outcome.
// `last` receives the outcome of the last candidate executed (used for single-candidate calls).
inline int first_match(const std::vector<Cand>& cs, const std::function<bool(const Outcome&)>& want, Outcome& out, const std::string& path, int& attempts) {
    static int* progress = nullptr;
    if (!progress) progress = (int*)mmap(nullptr, 4096, PROT_READ | PROT_WRITE, MAP_SHARED | MAP_ANONYMOUS, -1, 0);
    size_t start = 0;
    std::string err = path + ".err", trace = path + ".trace";
    while (start < cs.size()) {
        unlink(path.c_str()); unlink(err.c_str()); unlink(trace.c_str());
        fflush(stdout); fflush(stderr);
        progress[0] = (int)start; progress[1] = 0;
        pid_t pid = fork();
        if (pid == 0) {
            int fd = open(err.c_str(), O_WRONLY | O_CREAT | O_TRUNC, 0644);
            dup2(fd, 2);
            int dn = open("/dev/null", O_WRONLY);
            dup2(dn, 1);
            int tfd = open(trace.c_str(), O_WRONLY | O_CREAT | O_TRUNC, 0644);
            sim::set_decision_fd(tfd);
            g_cur.in_loop = false;
            for (size_t i = start; i < cs.size(); i++) {
                progress[0] = (int)i;
                (void)!ftruncate(tfd, 0); lseek(tfd, 0, SEEK_SET);
                g_cur.program = cs[i].program; g_cur.cfg = cs[i].cfg; g_cur.result_path = path;
                run_case(cs[i].program, cs[i].cfg);
                progress[1] = (int)i + 1;
                if (cs.size() == 1) {  // single candidate: the caller wants the passing outcome as well
                    Outcome o = outcome_now("ok", "", "");
                    write_file(path, replay_json(cs[i].program, cs[i].cfg, o, false).dump());
                }
            }
            _exit(0);
        }
        int wst = 0;
        waitpid(pid, &wst, 0);
        size_t at = (size_t)progress[0];
        attempts += (int)(at - start) + 1;
        Outcome o = read_outcome(path, wst);
        if (WIFEXITED(wst) && WEXITSTATUS(wst) == 0) { out = o; return want(o) && cs.size() == 1 ? 0 : -1; }
        out = o;
        if (want(o)) return (int)at;
        start = at + 1;
    }
    return -1;
}

inline Outcome run_in_child(const Json& program, const sim::Config& cfg, const std::string& path) {
    std::vector<Cand> one{{program, cfg}};
    Outcome o;
    int attempts = 0;
    first_match(one, [](const Outcome&) { return true; }, o, path, attempts);
    return o;
}

// ------------------------------------------------------------------------------------------------ investigate: confirm, minimise, write replay file
inline sim::Config replay_cfg(sim::Config c, const std::vector<sim::Decision>& script) {
    c.replay = true;
    c.script = script;
    return c;
}

inline int default_of(char kind) { return kind == 'S' || kind == 'P' ? -1 : 0; }  // W, J, H, F: 0

inline int investigate_mode() {
    auto& o = g_opts;
    std::string tmp = o.out + ".work";
    Json program; sim::Config cfg;
    make_case(o.prop, o.tier, o.seed, o.idx, program, cfg);
    g_cur.idx = o.idx; g_cur.run_seed = run_seed_of(o.seed, o.idx);

    // 1. the same seed twice, fresh processes: identical outcome?
    Outcome a = run_in_child(program, cfg, tmp);
    Outcome b = run_in_child(program, cfg, tmp);
    printf("INVESTIGATE first: status=%s class=%s eh=%s | second: status=%s class=%s eh=%s\n", a.status.c_str(), a.vclass.c_str(), hex(a.event_hash).c_str(),
           b.status.c_str(), b.vclass.c_str(), hex(b.event_hash).c_str());
    if (!failing(a)) { printf("NOT-REPRODUCED status=%s\n", a.status.c_str()); return 4; }
    if (a.status != b.status || a.vclass != b.vclass || (a.status == "violation" && a.event_hash != b.event_hash) || a.decisions.size() != b.decisions.size()) {
        printf("NONDETERMINISTIC\n");
        return 5;
    }
    const std::string cls = a.vclass;
    std::function<bool(const Outcome&)> same = [&](const Outcome& x) { return failing(x) && x.vclass == cls; };

    // A run killed by a sanitizer has streamed its decisions to <tmp>.trace; the script is that prefix (defaults afterwards).
    std::vector<sim::Decision> script = a.decisions;
    sim::Config best_cfg = cfg;
    Json best_prog = program;
    Outcome best = a;
    int attempts = 2;

    {
        Outcome r = run_in_child(best_prog, replay_cfg(best_cfg, script), tmp);
        attempts++;
        if (!same(r) || (a.status == "violation" && r.event_hash != a.event_hash)) { printf("REPLAY-MISMATCH status=%s class=%s\n", r.status.c_str(), r.vclass.c_str()); return 5; }
    }

    // 2. shrink the program: for every candidate first the projected script, then fresh schedule seeds
    bool progress = true;
    int rounds = 0;
    while (progress && rounds++ < 60 && attempts < 6000) {
        progress = false;
        std::vector<Cand> cs;
        for (auto& cand : hx::shrink(best_prog)) {
            cs.push_back({cand, replay_cfg(best_cfg, script)});
            for (int k = 0; k < o.fresh_tries; k++) {
                sim::Config c = best_cfg;
                c.replay = false; c.script.clear();
                c.sched_seed = sim::mix(best_cfg.sched_seed, 1000 + k) & 0x7fffffffffffffffull;
                cs.push_back({cand, c});
            }
        }
        Outcome r;
        int hit = first_match(cs, same, r, tmp, attempts);
        if (hit >= 0) {
            best_prog = cs[hit].program; best = r; best_cfg = cs[hit].cfg; best_cfg.replay = false; best_cfg.script.clear();
            script = r.decisions;
            progress = true;
        }
    }

    // 3. shrink the schedule: turn decisions into defaults, biggest chunks first
    {
        auto try_script = [&](const std::vector<sim::Decision>& s) {
            Outcome r = run_in_child(best_prog, replay_cfg(best_cfg, s), tmp);
            attempts++;
            if (same(r)) { best = r; script = s; return true; }   // keep the candidate itself (with its defaults), not the re-expanded record
            return false;
        };
        // (a) truncate: everything after position n is default
        for (size_t n = script.size(); n > 0;) {
            size_t cut = n / 2;
            std::vector<sim::Decision> s(script.begin(), script.begin() + cut);
            if (try_script(s)) n = cut;
            else break;
        }
        // (b) chunks to default, biggest first
        for (size_t chunk = std::max<size_t>(1, script.size() / 2);; chunk /= 2) {
            for (size_t i = 0; i < script.size(); i += chunk) {
                std::vector<sim::Decision> s = script;
                bool changed = false;
                for (size_t k = i; k < std::min(script.size(), i + chunk); k++)
                    if (s[k].val != default_of(s[k].kind)) { s[k].val = default_of(s[k].kind); changed = true; }
                if (changed && attempts < 8000) try_script(s);
            }
            if (chunk <= 1) break;
        }
        // (c) drop trailing defaults and try to delete single entries (later entries of the same kind move up)
        while (!script.empty() && script.back().val == default_of(script.back().kind)) script.pop_back();
        for (size_t i = script.size(); i-- > 0 && attempts < 9000;) {
            std::vector<sim::Decision> s = script;
            s.erase(s.begin() + i);
            try_script(s);
        }
        while (!script.empty() && script.back().val == default_of(script.back().kind)) script.pop_back();
    }

    // 4. final confirmation in a fresh child, then write the replay file
    sim::Config final_cfg = replay_cfg(best_cfg, script);
    Outcome fin = run_in_child(best_prog, final_cfg, tmp);
    if (!same(fin)) { printf("FINAL-MISMATCH status=%s class=%s\n", fin.status.c_str(), fin.vclass.c_str()); return 5; }
    Json j = replay_json(best_prog, best_cfg, fin, false);
    j.set("mode", "script");
    j.set("decisions", decisions_to_string(script));
    std::string wt = read_file(tmp);
    if (!wt.empty()) { Json tr = Json::parse(wt); if (tr.has("log_tail")) j.set("log_tail", tr.at("log_tail")); }
    if (fin.status == "sanitizer") j.set("sanitizer_report", read_file(tmp + ".err").substr(0, 6000));
    j.set("minimiser_attempts", attempts);
    j.set("original", Json::object().set("describe", hx::describe(program)).set("decisions", (int64_t)a.decisions.size()).set("steps", a.steps));
    write_file(o.out, j.dump());
    unlink(tmp.c_str()); unlink((tmp + ".err").c_str()); unlink((tmp + ".trace").c_str());
    int nondefault = 0;
    for (auto& d : script) nondefault += d.val != default_of(d.kind);
    printf("MINIMISED class=%s owned=%d attempts=%d program=%s decisions=%zu explicit=%d file=%s\n", cls.c_str(), (int)hx::owns(o.prop, cls), attempts,
           hx::describe(best_prog).c_str(), script.size(), nondefault, o.out.c_str());
    return 10;
}

// ------------------------------------------------------------------------------------------------ replay a file in this process
inline int replay_mode() {
    Json j = Json::parse_file(g_opts.file);
    if (g_opts.prop.empty()) g_opts.prop = j.at("property").s;
    Json program = j.at("program");
    sim::Config cfg = cfg_from_json(j.at("cfg"));
    if (j.gets("mode", "script") == "script") {
        cfg.replay = true;
        cfg.script = decisions_from_string(j.at("decisions").s);
    }
    g_cur.idx = j.get("run_index", -1);
    g_cur.program = program; g_cur.cfg = cfg; g_cur.result_path = g_opts.out;
    printf("REPLAY property=%s harness=%s program=%s expected=%s/%s\n", g_opts.prop.c_str(), hx::NAME, hx::describe(program).c_str(),
           j.at("result").at("status").s.c_str(), j.at("result").at("class").s.c_str());
    fflush(stdout);
    run_case(program, cfg);
    Outcome o = outcome_now("ok", "", "");
    finish_single(o, 0);
    return 0;
}

inline int one_mode(bool dump) {
    Json program; sim::Config cfg;
    make_case(g_opts.prop, g_opts.tier, g_opts.seed, g_opts.idx, program, cfg);
    g_cur.idx = g_opts.idx; g_cur.run_seed = run_seed_of(g_opts.seed, g_opts.idx);
    g_cur.program = program; g_cur.cfg = cfg; g_cur.result_path = g_opts.out;
    if (dump) printf("PROGRAM %s\nCFG %s\n", program.dump().c_str(), cfg_to_json(cfg).dump().c_str());
    fflush(stdout);
    run_case(program, cfg);
    if (dump) {
        Json ev = events_to_json(100000);
        for (auto& e : ev.a) printf("%s\n", e.s.c_str());
        printf("DECISIONS %s\n", decisions_to_string(sim::decisions()).c_str());
    }
    Outcome o = outcome_now("ok", "", "");
    finish_single(o, 0);
    return 0;
}

inline int main_impl(int argc, char** argv) {
    auto& o = g_opts;
    for (int i = 1; i < argc; i++) {
        std::string a = argv[i];
        auto next = [&]() -> std::string { return i + 1 < argc ? argv[++i] : ""; };
        if (a == "--prop") o.prop = next();
        else if (a == "--tier") o.tier = next();
        else if (a == "--seed") o.seed = strtoull(next().c_str(), nullptr, 10);
        else if (a == "--flavour") o.flavour = next();
        else if (a == "--loop") o.mode = "loop";
        else if (a == "--from") o.from = atol(next().c_str());
        else if (a == "--to") o.to = atol(next().c_str());
        else if (a == "--stride") o.stride = atol(next().c_str());
        else if (a == "--offset") o.offset = atol(next().c_str());
        else if (a == "--investigate") { o.mode = "investigate"; o.idx = atol(next().c_str()); }
        else if (a == "--one") { o.mode = "one"; o.idx = atol(next().c_str()); }
        else if (a == "--dump") { o.mode = "dump"; o.idx = atol(next().c_str()); }
        else if (a == "--replay") { o.mode = "replay"; o.file = next(); }
        else if (a == "--out") o.out = next();
        else if (a == "--fresh-tries") o.fresh_tries = atoi(next().c_str());
        else if (a == "--verbose") o.verbose = true;
        else { fprintf(stderr, "unknown option %s\n", a.c_str()); return 13; }
    }
    setvbuf(stdout, nullptr, _IOLBF, 0);
    install_handlers();
    try {
        if (o.mode == "loop") return loop_mode();
        if (o.mode == "investigate") return investigate_mode();
        if (o.mode == "replay") return replay_mode();
        if (o.mode == "one") return one_mode(false);
        if (o.mode == "dump") return one_mode(true);
    } catch (const std::exception& e) {
        fprintf(stderr, "harness error: %s\n", e.what());
        return 13;
    }
    fprintf(stderr, "usage: %s --prop ID --tier quick|thorough --seed N (--loop --from A --to B [--stride K --offset O] | --investigate IDX --out F | --replay F | --dump IDX)\n", argv[0]);
    return 13;
}

}  // namespace drv

// sanitizer defaults (non-inline, must be emitted)
extern "C" __attribute__((used)) const char* __asan_default_options() {
    return "exitcode=77:detect_leaks=0:detect_stack_use_after_return=1:halt_on_error=1:abort_on_error=0:allocator_may_return_null=1:new_delete_type_mismatch=0";
}
extern "C" __attribute__((used)) const char* __tsan_default_options() {
    return "exitcode=66:halt_on_error=1:report_signal_unsafe=0:detect_deadlocks=0:second_deadlock_stack=0:report_thread_leaks=0";
}

// tulz assertions are live in harness builds (-UNDEBUG) and become recorded violations
extern "C" void __assert_fail(const char* expr, const char* file, unsigned line, const char* func) {
    std::string d = std::string(expr) + " at " + file + ":" + std::to_string(line) + " in " + func;
    if (sim::active()) sim::violation("tulz-assert", d);
    fprintf(stderr, "assertion failed outside simulation: %s\n", d.c_str());
    _exit(13);
}

int main(int argc, char** argv) { return drv::main_impl(argc, argv); }
