// path_sim — tulz::Path / DirectoryVisitor against a generated directory tree.  Serves C18.
// The simulator owns: directory enumeration order ('.'/'..' anywhere, DT_UNKNOWN), the handle budget and the cwd moves.
#include <tulz/DirectoryVisitor.h>
#include <tulz/Exception.h>
#include <tulz/Path.h>

#include <dirent.h>
#include <fcntl.h>
#include <sys/resource.h>
#include <sys/stat.h>
#include <unistd.h>

#include <memory>

#include "common.h"

using tulz::DirectoryVisitor;
using tulz::Path;

namespace {
enum : int { E_CHECK = 100, E_VISIT = 101, E_LEAVE = 102, E_LAW = 103 };
std::map<std::string, uint64_t> g_extra;

struct Node {
    std::string name, abs;
    bool dir = false;
    size_t size = 0;        // file size, or total of regular files beneath
    std::vector<int> kids;
    int parent = -1;
};
std::vector<Node> g_nodes;

std::string printable(const std::string& s) {
    std::string r;
    for (unsigned char c : s) {
        if (c >= 0x20 && c < 0x7f) r += (char)c;
        else { char b[8]; snprintf(b, sizeof b, "\\x%02x", c); r += b; }
    }
    return r.size() > 80 ? r.substr(0, 77) + "..." : r;
}

int add_nodes(const Json& j, int parent, const std::string& abs) {
    int id = (int)g_nodes.size();
    g_nodes.emplace_back();
    g_nodes[id].name = j.at("n").s;
    g_nodes[id].abs = abs;
    g_nodes[id].parent = parent;
    if (j.has("d")) {
        g_nodes[id].dir = true;
        size_t total = 0;
        for (auto& c : j.at("d").a) {
            int k = add_nodes(c, id, abs + "/" + c.at("n").s);
            g_nodes[id].kids.push_back(k);
            total += g_nodes[k].size;
        }
        g_nodes[id].size = total;
    } else {
        g_nodes[id].size = (size_t)j.at("s").num();
    }
    return id;
}

void materialise(int id) {
    auto& n = g_nodes[id];
    if (n.dir) {
        if (mkdir(n.abs.c_str(), 0755) != 0 && errno != EEXIST) { perror(("mkdir " + printable(n.abs)).c_str()); _exit(13); }
        for (int k : n.kids) materialise(k);
    } else {
        int fd = open(n.abs.c_str(), O_WRONLY | O_CREAT | O_TRUNC, 0644);
        if (fd < 0) { perror(("open " + printable(n.abs)).c_str()); _exit(13); }
        std::string chunk(65536, '\0');
        for (size_t i = 0; i < chunk.size(); i++) chunk[i] = (char)(i * 131 + 7);
        size_t left = n.size;
        if (left > (64u << 20)) {  // huge files are sparse: the size is what Path must report, not the bytes on disk
            if (ftruncate(fd, (off_t)left) != 0) { perror("ftruncate"); _exit(13); }
            left = 0;
        }
        while (left > 0) {
            size_t w = std::min(left, chunk.size());
            if (write(fd, chunk.data(), w) != (ssize_t)w) { perror("write"); _exit(13); }
            left -= w;
        }
        close(fd);
    }
}

void remove_tree(const std::string& p) {
    DIR* d = opendir(p.c_str());
    if (d) {
        std::vector<std::string> names;
        while (dirent* e = readdir(d))
            if (strcmp(e->d_name, ".") && strcmp(e->d_name, "..")) names.push_back(e->d_name);
        closedir(d);
        for (auto& n : names) remove_tree(p + "/" + n);
        rmdir(p.c_str());
    } else {
        unlink(p.c_str());
    }
}

int count_open_fds() {
    int n = 0;
    DIR* d = opendir("/proc/self/fd");
    if (!d) return 16;
    while (readdir(d)) n++;
    closedir(d);
    return n;
}

std::string real_cwd() {
    char buf[8192];
    if (!getcwd(buf, sizeof buf)) return "?";
    return buf;
}

void check_handles(int before, const char* what, const std::string& p) {
    int after = sim::open_handles();
    if (after != before)
        sim::violation("handle-leak", std::string(what) + "(\"" + printable(p) + "\") changed the number of open FILE*/DIR* handles from " + std::to_string(before) + " to " + std::to_string(after));
}

void check_node(int id, const std::string& str) {
    auto& n = g_nodes[id];
    Path p(str);
    std::string shown = printable(str) + " [cwd " + printable(real_cwd()) + "]";
    sim::ev(E_CHECK, id, 0);
    int h = sim::open_handles();
    bool ex = p.exists(); check_handles(h, "exists", str);
    if (!ex) sim::violation("exists-mismatch", "exists() is false for existing " + std::string(n.dir ? "directory " : "file ") + shown);
    bool isd = p.isDirectory(); check_handles(h, "isDirectory", str);
    if (isd != n.dir) sim::violation("isdir-mismatch", "isDirectory() is " + std::to_string(isd) + " for " + shown);
    bool isf = p.isFile(); check_handles(h, "isFile", str);
    if (isf == n.dir) sim::violation("isfile-mismatch", "isFile() is " + std::to_string(isf) + " for " + shown);
    size_t sz = 0;
    try { sz = p.size(); } catch (const tulz::Exception& e) { sim::violation("size-mismatch", "size() threw \"" + printable(e.message) + "\" for existing " + shown); }
    check_handles(h, "size", str);
    if (sz != n.size) sim::violation("size-mismatch", "size() is " + std::to_string(sz) + ", the tree holds " + std::to_string(n.size) + " bytes at " + shown);
    if (n.dir) {
        std::multiset<std::string> got, want;
        try {
            for (auto& c : p.listChildren()) got.insert(c.toString());
        } catch (const tulz::Exception& e) { sim::violation("children-mismatch", "listChildren() threw \"" + printable(e.message) + "\" for directory " + shown); }
        check_handles(h, "listChildren", str);
        for (int k : n.kids) want.insert(g_nodes[k].name);
        if (got != want) {
            std::string g, w;
            for (auto& s : got) g += printable(s) + ",";
            for (auto& s : want) w += printable(s) + ",";
            sim::violation("children-mismatch", "listChildren(" + shown + ") returned {" + g + "} but the directory holds {" + w + "}");
        }
        g_extra["directories_listed"]++;
    } else {
        bool ok = false;
        try { (void)p.listChildren(); } catch (const tulz::Exception& e) { ok = e.type == Path::NotDirectory; }
        check_handles(h, "listChildren", str);
        if (!ok) sim::violation("error-kind", "listChildren() on regular file " + shown + " did not throw NotDirectory");
    }
    g_extra["nodes_checked"]++;
}

void check_missing(const std::string& str) {
    Path p(str);
    std::string shown = printable(str);
    int h = sim::open_handles();
    if (p.exists()) sim::violation("missing-path", "exists() is true for missing path " + shown);
    if (p.isFile() || p.isDirectory()) sim::violation("missing-path", "isFile()/isDirectory() is true for missing path " + shown);
    bool ok = false;
    try { (void)p.size(); } catch (const tulz::Exception& e) { ok = e.type == Path::NotFound; }
    if (!ok) sim::violation("error-kind", "size() of missing path " + shown + " did not throw NotFound");
    ok = false;
    try { (void)p.listChildren(); } catch (const tulz::Exception& e) { ok = e.type == Path::NotFound; }
    if (!ok) sim::violation("error-kind", "listChildren() of missing path " + shown + " did not throw NotFound");
    check_handles(h, "queries on missing path", str);
    g_extra["missing_paths_checked"]++;
}

// the path string under which `id` is reachable from `cwd` (relative when it lies beneath, else absolute)
std::string spelled(int id, const std::string& cwd, int variant) {
    const std::string& abs = g_nodes[id].abs;
    std::string s = abs;
    if (variant & 1) {
        if (abs.size() > cwd.size() + 1 && abs.compare(0, cwd.size(), cwd) == 0 && abs[cwd.size()] == '/') s = abs.substr(cwd.size() + 1);
        else if (abs == cwd) s = ".";
    }
    if ((variant & 2) && s != "." && s[0] != '/') s = "./" + s;
    if ((variant & 4) && g_nodes[id].dir) s += "/";
    return s;
}

std::string strip_one_trailing_sep(std::string d) {
    if (!d.empty() && d.back() == '/') d.pop_back();
    return d;
}

void string_laws(const Json& laws) {
    for (auto& l : laws.a) {
        const std::string d = l.at("d").s, n = l.at("n").s;
        sim::ev(E_LAW, 0, 0);
        std::string j = Path::join(d, n);
        Path jp(j);
        if (jp.getPathName() != n)
            sim::violation("string-law", "getPathName(join(\"" + printable(d) + "\", \"" + printable(n) + "\") = \"" + printable(j) + "\") is \"" + printable(jp.getPathName()) + "\", expected the name");
        std::string par = jp.getParentDirectory().toString();
        if (par != strip_one_trailing_sep(d))
            sim::violation("string-law", "getParentDirectory(join(\"" + printable(d) + "\", \"" + printable(n) + "\") = \"" + printable(j) + "\") is \"" + printable(par) + "\", expected \"" + printable(strip_one_trailing_sep(d)) + "\"");
        std::string absn = "/" + n;
        if (Path::join(d, absn) != absn) sim::violation("string-law", "join(\"" + printable(d) + "\", absolute \"" + printable(absn) + "\") is \"" + printable(Path::join(d, absn)) + "\"");
        if (Path::join(Path(d), Path(n)).toString() != j) sim::violation("string-law", "join(Path,Path) and join(string,string) disagree");
        if (!Path(absn).isAbsolute() || Path(n).isAbsolute()) sim::violation("string-law", "isAbsolute() wrong for \"" + printable(absn) + "\" / \"" + printable(n) + "\"");
        // variadic join is left-associative
        if (Path::join(d, n, n) != Path::join(Path::join(d, n), n)) sim::violation("string-law", "variadic join is not join(join(a,b),c)");
        g_extra["string_law_cases"]++;
        // totality / memory safety only (ASan is the oracle): the string functions are called on every spelling the laws do
        // not pin down — trailing separators, bare names, the empty string, a lone separator
        for (const std::string& x : {d, d + "/", n, n + "/", std::string(), std::string("/"), std::string("//"), j + "/", "/" + n}) {
            Path px(x);
            (void)px.getPathName();
            (void)px.getParentDirectory().toString();
            (void)px.isAbsolute();
            (void)Path::join(x, n);
            (void)Path::join(std::string(), x);
        }
        (void)Path::getSystemPath();
    }
}

void body(const Json& prog, const std::string& root) {
    sim::DirSimConfig dc;
    dc.enabled = true;
    dc.unknown_dtype_rate = prog.getd("unknown_dtype", 0);
    dc.root = root;
    sim::set_dirsim(dc);
    sim::reset_handle_count();
    if (chdir(root.c_str()) != 0) { perror("chdir root"); _exit(13); }
    const int fds_at_start = count_open_fds();
    struct Frame { std::unique_ptr<DirectoryVisitor> v; std::string before; };
    std::vector<Frame> stack;
    auto pop = [&] {
        std::string want = stack.back().before;
        stack.back().v.reset();
        sim::ev(E_LEAVE, (int)stack.size(), 0);
        std::string got = real_cwd();
        if (got != want) sim::violation("cwd-not-restored", "after ~DirectoryVisitor the working directory is " + printable(got) + ", before its construction it was " + printable(want));
        stack.pop_back();
        g_extra["visitors_destroyed"]++;
    };
    for (auto& op : prog.at("ops").a) {
        const std::string& o = op.at("op").s;
        if (o == "check") {
            int id = (int)(op.get("node", 0) % (int64_t)g_nodes.size());
            check_node(id, spelled(id, real_cwd(), (int)op.get("variant", 0)));
        } else if (o == "missing") {
            int id = (int)(op.get("node", 0) % (int64_t)g_nodes.size());
            std::string base = spelled(id, real_cwd(), (int)op.get("variant", 0) & 3);
            check_missing(g_nodes[id].dir ? base + "/no-such-entry" : base + ".missing");
            if (!g_nodes[id].dir) {   // a regular file spelled with a trailing separator names nothing (ENOTDIR)
                check_missing(base + "/");
                check_missing(base + "/x");
            }
        } else if (o == "visit" || o == "visit_default" || o == "visit_missing") {
            Frame f;
            f.before = real_cwd();
            int id = (int)(op.get("node", 0) % (int64_t)g_nodes.size());
            while (!g_nodes[id].dir) id = g_nodes[id].parent;
            std::string target = o == "visit_missing" ? spelled(id, f.before, (int)op.get("variant", 0) & 3) + "/no-such-dir" : spelled(id, f.before, (int)op.get("variant", 0));
            sim::ev(E_VISIT, id, (int)stack.size());
            int h = sim::open_handles();
            if (o == "visit_default") {
                f.v = std::make_unique<DirectoryVisitor>();
                f.v->set(Path(target));
                f.v->visit();
            } else {
                f.v = std::make_unique<DirectoryVisitor>(Path(target));
            }
            check_handles(h, "DirectoryVisitor", target);
            std::string now = real_cwd();
            if (o != "visit_missing" && now != g_nodes[id].abs)
                sim::violation("cwd-not-entered", "DirectoryVisitor(" + printable(target) + ") left the working directory at " + printable(now));
            if (o == "visit_missing" && now != f.before) sim::violation("cwd-not-restored", "DirectoryVisitor on a missing directory changed the working directory");
            if (Path::getWorkingDirectory().toString() != now) sim::violation("cwd-query", "Path::getWorkingDirectory() disagrees with getcwd()");
            stack.push_back(std::move(f));
            if (stack.size() > 1) g_extra["nested_visitors"]++;
        } else if (o == "leave") {
            if (!stack.empty()) pop();
        } else if (o == "reuse") {
            // the same visitor object used again: restore() by hand, the working directory moves elsewhere, set()+visit() again.
            // When it is destroyed it must bring back the directory that was current before this LAST visit.
            if (stack.empty()) continue;
            Frame& f = stack.back();
            f.v->restore();
            if (real_cwd() != f.before) sim::violation("cwd-not-restored", "DirectoryVisitor::restore() left the working directory at " + printable(real_cwd()) + ", expected " + printable(f.before));
            int id = (int)(op.get("node", 0) % (int64_t)g_nodes.size());
            while (!g_nodes[id].dir) id = g_nodes[id].parent;
            int id2 = (int)((op.get("node", 0) / 7) % (int64_t)g_nodes.size());
            while (!g_nodes[id2].dir) id2 = g_nodes[id2].parent;
            const std::string elsewhere = (op.get("node", 0) % 7) == 3 ? std::string("/") : g_nodes[id2].abs;   // sometimes the file-system root
            Path::setWorkingDirectory(Path(elsewhere));
            if (real_cwd() != elsewhere) sim::violation("cwd-query", "Path::setWorkingDirectory did not change the working directory");
            if (Path::getWorkingDirectory().toString() != elsewhere) sim::violation("cwd-query", "Path::getWorkingDirectory() is \"" + printable(Path::getWorkingDirectory().toString()) + "\" while the process is in " + printable(elsewhere));
            f.before = elsewhere;
            bool to_missing = (op.get("node", 0) % 5) == 0;   // sometimes the second visit goes to a directory that does not exist
            std::string target = to_missing ? spelled(id, f.before, (int)op.get("variant", 0) & 3) + "/no-such-dir" : spelled(id, f.before, (int)op.get("variant", 0));
            f.v->set(Path(target));
            f.v->visit();
            if (to_missing) {
                if (real_cwd() != f.before) sim::violation("cwd-not-restored", "re-used DirectoryVisitor on a missing directory changed the working directory");
            } else if (real_cwd() != g_nodes[id].abs) sim::violation("cwd-not-entered", "re-used DirectoryVisitor did not enter " + printable(target));
            g_extra["visitors_reused"]++;
        }
    }
    while (!stack.empty()) pop();
    // full sweep from the root
    for (size_t id = 0; id < g_nodes.size(); id++) check_node((int)id, spelled((int)id, real_cwd(), (int)(id % 8)));
    check_missing(root + "/definitely/not/here");
    check_missing("relative-missing-entry");
    string_laws(prog.at("laws"));
    if (sim::open_handles() != 0) sim::violation("handle-leak", std::to_string(sim::open_handles()) + " FILE*/DIR* handles still open at the end of the run");
    {   // plain file descriptors too (open()/dup() that bypass stdio): what /proc/self/fd shows must be what it showed at the start
        int fds_now = count_open_fds();
        if (fds_now != fds_at_start)
            sim::violation("handle-leak", "the process holds " + std::to_string(fds_now) + " file descriptors at the end of the run, " + std::to_string(fds_at_start) + " at its start");
    }
    sim::set_dirsim(sim::DirSimConfig());
}

std::string g_workroot;

}  // namespace

namespace hx {
const char* NAME = "path_sim";
std::map<std::string, uint64_t>& extra() { return g_extra; }
const char* event_name(int k) {
    switch (k) {
        case E_CHECK: return "check-node";
        case E_VISIT: return "visitor-enter(node,depth)";
        case E_LEAVE: return "visitor-leave";
        case E_LAW: return "string-law";
    }
    return "?";
}
bool owns(const std::string& prop, const std::string& c) { return prop == "C18" && c != "stepcap" && c != "deadlock"; }

static bool g_gen_has_huge = false;
static std::string gen_name(sim::Rng& g, int serial) {
    std::string base = "n" + std::to_string(serial);
    switch (g.below(12)) {
        case 10: return std::string(1, "abcxyzCD"[g.below(8)]) + ":" + base;       // looks like a drive letter
        case 11: return base + ":";
        case 0: return base + " with spaces ";
        case 1: return "." + base;
        case 2: return base + ".";
        case 3: return "..." + base;
        case 4: return base + "\xc3\xa9\xe6\xbc\xa2";           // valid UTF-8
        case 5: return base + "\xff\xfe\x80";                     // invalid UTF-8
        case 6: return base + std::string(200 - base.size(), 'L');
        case 7: return base + ".tar.gz";
        default: return base;
    }
}
static Json gen_tree(sim::Rng& g, int depth, int maxdepth, int maxfan, bool thorough, int& serial, const std::string& name) {
    Json n = Json::object();
    n.set("n", name);
    Json kids = Json::array();
    int fan = depth == 0 ? g.range(1, maxfan) : g.range(0, maxfan);
    std::string prev_file;
    for (int i = 0; i < fan; i++) {
        std::string kn = gen_name(g, serial++);
        if (!prev_file.empty() && g.below(6) == 0) {   // a sibling that differs from the previous file only in ASCII case
            kn = prev_file;
            for (auto& c : kn) c = (char)(isupper((unsigned char)c) ? tolower((unsigned char)c) : toupper((unsigned char)c));
            if (kn == prev_file) kn = gen_name(g, serial++);
            prev_file.clear();   // never flip twice in a row: that would bring the original name back
        }
        bool subdir = depth + 1 < maxdepth && g.below(3) == 0;
        if (subdir && g.below(4) == 0) kn = "n" + std::to_string(serial++) + std::string(190, 'D');  // working directories beyond 255 bytes
        if (subdir) kids.push(gen_tree(g, depth + 1, maxdepth, maxfan, thorough, serial, kn));
        else {
            static const int64_t sizes[] = {0, 1, 4095, 4096, 70000, 17, 300};
            int64_t s = sizes[g.below(7)];
            if (thorough && g.below(40) == 0) s = (1 << 20) + 3;
            if (g.below(25) == 0) {  // sparse giants: totals that do not fit 31 / 32 bits
                static const int64_t huge[] = {2147483647LL, 2147483648LL, 2147483653LL, 3221225479LL, 4294967297LL, 1500000000LL};
                s = huge[g.below(6)];
                g_gen_has_huge = true;
            }
            kids.push(Json::object().set("n", kn).set("s", s));
            if (!kn.empty() && kn[0] == 'n') prev_file = kn; else prev_file.clear();
        }
    }
    n.set("d", kids);
    return n;
}

void generate(sim::Rng& g, const std::string&, const std::string& tier, Json& program, sim::Config& cfg) {
    bool thorough = tier == "thorough";
    program = Json::object();
    int serial = 0;
    Json tree = gen_tree(g, 0, thorough ? 4 : 3, thorough ? 6 : 4, thorough, serial, "root");
    if (g.below(8) == 0) {   // a chain of 10-16 nested directories with a file at the bottom
        int depth = g.range(10, 16);
        Json node = Json::object().set("n", std::string("bottom")).set("s", (int64_t)g.range(0, 5000));
        for (int i = depth; i > 0; i--) node = Json::object().set("n", "c" + std::to_string(i)).set("d", Json::array().push(node));
        tree.at("d").push(node);
    }
    program.set("tree", tree);
    static const int lim[] = {0, 0, 40, 8};
    program.set("rlimit", lim[g.below(4)]);
    program.set("unknown_dtype", g.below(2) ? 0.25 : 0.0);
    program.set("stdin_closed", (int)(g.below(8) == 0));
    Json ops = Json::array();
    int n = g.range(3, thorough ? 24 : 12);
    for (int i = 0; i < n; i++) {
        Json op = Json::object();
        int r = (int)g.below(100);
        const char* o = r < 38 ? "check" : r < 47 ? "missing" : r < 64 ? "visit" : r < 72 ? "visit_default" : r < 78 ? "visit_missing" : r < 86 ? "reuse" : "leave";
        op.set("op", o).set("node", (int)g.below(1000)).set("variant", (int)g.below(8));
        ops.push(op);
    }
    program.set("ops", ops);
    Json laws = Json::array();
    static const char* dirs[] = {"a", "a/", "/", "/x", "/x/", "a/b", "a/b/", "a//", ".", "./", "..", "../", "/x/y.z/", "a b", "\xc3\xa9", "a.b", "//", "data", "/tmp/cache", "n/n", "x:", "lib/lib"};
    static const char* names[] = {"n", "n.txt", ".n", "n.", "...", "a b", "\xff", "x\xc3\xa9", "n.tar.gz", "-", "~", "a:b.txt", "c:", "x:1", "1:x", "data"};
    int nl = g.range(2, 8);
    for (int i = 0; i < nl; i++) {
        std::string d = dirs[g.below(sizeof dirs / sizeof *dirs)];
        if (g.below(4) == 0) d = d + (d.back() == '/' ? "" : "/") + "seg" + std::to_string(g.below(100));
        laws.push(Json::object().set("d", d).set("n", std::string(names[g.below(sizeof names / sizeof *names)])));
    }
    program.set("laws", laws);
    cfg.strategy = sim::UNIFORM;
    cfg.clock_step_max_ms = 0;
    cfg.step_cap = 1000000;
}

void execute(const Json& program, const sim::Config& cfg, const std::string&) {
    if (g_workroot.empty()) {
        const char* w = getenv("VERIF_WORK");
        g_workroot = std::string(w ? w : "/verif/work") + "/p" + std::to_string(getpid());
        mkdir((w ? std::string(w) : std::string("/verif/work")).c_str(), 0755);
        remove_tree(g_workroot);
        mkdir(g_workroot.c_str(), 0755);
    }
    std::string home = real_cwd();
    std::string root = g_workroot + "/root";
    remove_tree(root);
    g_nodes.clear();
    add_nodes(program.at("tree"), -1, root);
    materialise(0);
    rlimit old{};
    getrlimit(RLIMIT_NOFILE, &old);
    int budget = (int)program.get("rlimit", 0);
    if (budget > 0) {
        rlimit nl = old;
        nl.rlim_cur = (rlim_t)(count_open_fds() + budget);
        if (nl.rlim_cur < old.rlim_cur) setrlimit(RLIMIT_NOFILE, &nl);
        g_extra["runs_with_small_handle_budget"]++;
    }
    // a daemon-like environment: descriptor 0 is free, so the first open()/fopen() of the run is handed fd 0
    int saved_stdin = -1;
    if (program.get("stdin_closed", 0)) {
        saved_stdin = dup(0);
        close(0);
        g_extra["runs_with_fd0_free"]++;
    }
    sim::run(cfg, [&] {
        try {
            body(program, root);
        } catch (const std::exception& e) {  // valid use of the API must not throw: an escaping exception is an outcome to report, not a harness error
            sim::violation("unexpected-exception", std::string("exception escaped from tulz under valid use: ") + e.what());
        }
    });
    if (saved_stdin >= 0) {
        dup2(saved_stdin, 0);
        close(saved_stdin);
    }
    setrlimit(RLIMIT_NOFILE, &old);
    if (chdir(home.c_str()) != 0) _exit(13);
    remove_tree(root);
    g_extra["tree_nodes"] += g_nodes.size();
    {
        auto ds = sim::dirsim_stats();   // cumulative for this worker process
        g_extra["fault_simulated_directory_streams"] = ds.streams;
        g_extra["fault_streams_served_in_non_native_order"] = ds.reordered_streams;
        g_extra["fault_entries_served_as_DT_UNKNOWN"] = ds.unknown_dtype;
        g_extra["directory_entries_served"] = ds.entries;
    }
}

std::string describe(const Json& p) {
    std::function<void(const Json&, int&, int&, int&, int)> walk = [&](const Json& n, int& dirs, int& files, int& maxd, int d) {
        if (n.has("d")) { dirs++; maxd = std::max(maxd, d); for (auto& c : n.at("d").a) walk(c, dirs, files, maxd, d + 1); }
        else files++;
    };
    int dirs = 0, files = 0, maxd = 0;
    walk(p.at("tree"), dirs, files, maxd, 0);
    std::string s = "tree(" + std::to_string(dirs) + " dirs, " + std::to_string(files) + " files, depth " + std::to_string(maxd) + ") rlimit+" + std::to_string(p.get("rlimit", 0)) + " ops:";
    for (auto& op : p.at("ops").a) s += " " + op.at("op").s;
    s += " laws:";
    for (auto& l : p.at("laws").a) s += " (" + printable(l.at("d").s) + "," + printable(l.at("n").s) + ")";
    return s;
}

std::vector<Json> shrink(const Json& p) {
    std::vector<Json> out;
    for (size_t i = 0; i < p.at("ops").size(); i++) { Json c = p; c.at("ops").a.erase(c.at("ops").a.begin() + i); out.push_back(c); }
    for (size_t i = 0; i < p.at("laws").size(); i++) { Json c = p; c.at("laws").a.erase(c.at("laws").a.begin() + i); out.push_back(c); }
    // drop a child somewhere in the tree (first two levels)
    const Json& kids = p.at("tree").at("d");
    for (size_t i = 0; i < kids.size(); i++) {
        Json c = p; c.at("tree").at("d").a.erase(c.at("tree").at("d").a.begin() + i); out.push_back(c);
        if (kids[i].has("d"))
            for (size_t k = 0; k < kids[i].at("d").size(); k++) { Json c2 = p; auto& v = c2.at("tree").at("d")[i].at("d").a; v.erase(v.begin() + k); out.push_back(c2); }
    }
    if (p.get("rlimit", 0)) { Json c = p; c.set("rlimit", 0); out.push_back(c); }
    if (p.get("stdin_closed", 0)) { Json c = p; c.set("stdin_closed", 0); out.push_back(c); }
    return out;
}
}  // namespace hx
