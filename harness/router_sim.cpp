// router_sim — tulz::ConcurrentSubjectRouter under the deterministic scheduler.  Serves C11 and C15 (T-flavour).
// The completed history is checked for linearizability against a sequential router model, plus containment rules.
#include <tulz/observer/routing/ConcurrentSubjectRouter.h>
#include <tulz/observer/routing/RoutingKeyBuilder.h>

#include <memory>
#include <thread>
#include <unordered_set>

#include "common.h"

using tulz::ConcurrentSubjectRouter;
using tulz::RoutingKey;
using tulz::RoutingKeyBuilder;
using tulz::USubscription;

namespace {
enum : int {
    E_ISSUE = 100,    // a = op id, b = op type
    E_RET = 101,      // a = op id, b = result (count / bool / depth)
    E_CB_BEGIN = 102, // a = observer, b = notify op id
    E_CB_END = 103,
};
enum : int { O_NOTIFY = 1, O_SUBSCRIBE, O_UNSUBSCRIBE, O_SHRINK, O_EXISTS, O_DEPTH };
const char* op_name(int t) {
    static const char* n[] = {"?", "notify", "subscribe", "unsubscribe", "shrink", "exists", "depth"};
    return t >= 1 && t <= 6 ? n[t] : "?";
}

std::map<std::string, uint64_t> g_extra;

using Level = std::vector<std::string>;   // 1 element: concrete name; 0: all(); >=2: regex alternation
using Pattern = std::vector<Level>;

Pattern pattern_of(const Json& j) {
    Pattern p;
    for (auto& l : j.a) {
        Level lv;
        for (auto& s : l.a) lv.push_back(s.s);
        p.push_back(lv);
    }
    return p;
}
RoutingKey build_key(const Pattern& p) {
    RoutingKeyBuilder b;
    for (auto& l : p) {
        if (l.empty()) b.all();
        else if (l.size() == 1) b.level(l[0]);
        else {
            std::string re;
            for (size_t i = 0; i < l.size(); i++) re += (i ? "|" : "") + l[i];
            b.level(std::regex(re));
        }
    }
    return b.build();
}
bool level_matches(const Level& l, const std::string& name) {
    if (l.empty()) return true;
    for (auto& s : l)
        if (s == name) return true;
    return false;
}
// full match: same number of levels, each level matches
bool key_matches(const Pattern& p, const std::vector<std::string>& key) {
    if (p.size() != key.size()) return false;
    for (size_t i = 0; i < p.size(); i++)
        if (!level_matches(p[i], key[i])) return false;
    return true;
}
// prefix match: some prefix of key (length p.size()) matches p
bool prefix_matches(const Pattern& p, const std::vector<std::string>& key) {
    if (p.size() > key.size()) return false;
    for (size_t i = 0; i < p.size(); i++)
        if (!level_matches(p[i], key[i])) return false;
    return true;
}
std::string pat_str(const Pattern& p) {
    std::string s;
    for (auto& l : p) {
        s += "/";
        if (l.empty()) s += "*";
        else for (size_t i = 0; i < l.size(); i++) s += (i ? "|" : "") + l[i];
    }
    return s.empty() ? "/" : s;
}

struct Op {
    int id = 0, type = 0, thread = 0;
    Pattern pat;         // notify / shrink / exists: pattern; subscribe: concrete key
    int obs = -1;        // subscribe / unsubscribe
    int64_t issue = -1, ret = -1;
    int64_t result = 0;
    std::vector<int> delivered;  // notify
};

struct ObsInfo {
    std::vector<std::string> key;
    bool initial = false;
};

// ---- linearizability (Wing & Gong with memoisation) ------------------------------------------------------------------
struct Lin {
    const std::vector<Op>& ops;
    const std::vector<ObsInfo>& obs;
    std::unordered_set<uint64_t> dead;   // (done mask << 20) | live mask  known not to lead to a linearisation
    std::vector<int> order;
    std::string why;                      // explanation of the last failed constraint (best effort)
    std::vector<uint32_t> must_precede;   // must_precede[i] = mask of ops that have to be linearised before op i

    Lin(const std::vector<Op>& o, const std::vector<ObsInfo>& b) : ops(o), obs(b), must_precede(o.size(), 0) {}

    bool apply(const Op& op, uint32_t& live) {
        switch (op.type) {
            case O_SUBSCRIBE: live |= 1u << op.obs; return true;
            case O_UNSUBSCRIBE:
                if (!(live & (1u << op.obs))) { why = "unsubscribe of an observer that is not subscribed"; return false; }
                live &= ~(1u << op.obs);
                return true;
            case O_SHRINK: return true;
            case O_NOTIFY: {
                uint32_t want = 0, got = 0;
                for (size_t o = 0; o < obs.size(); o++)
                    if ((live & (1u << o)) && key_matches(op.pat, obs[o].key)) want |= 1u << o;
                for (int d : op.delivered) got |= 1u << d;
                if (want != got) return false;
                // return value: number of matched keys holding a subject: at least those with a live subscription
                std::set<std::vector<std::string>> keys;
                for (size_t o = 0; o < obs.size(); o++)
                    if (want & (1u << o)) keys.insert(obs[o].key);
                if ((int64_t)keys.size() > op.result) return false;
                return true;
            }
            case O_EXISTS: {
                bool must = false;
                for (size_t o = 0; o < obs.size(); o++)
                    if ((live & (1u << o)) && prefix_matches(op.pat, obs[o].key)) must = true;
                if (op.pat.empty()) must = true;  // the root always exists
                return !must || op.result != 0;
            }
            case O_DEPTH: {
                size_t d = 0;
                for (size_t o = 0; o < obs.size(); o++)
                    if (live & (1u << o)) d = std::max(d, obs[o].key.size());
                return (int64_t)(1 + d) <= op.result;
            }
        }
        return true;
    }

    bool search(uint32_t done, uint32_t live) {
        if (done == (1u << ops.size()) - 1) return true;
        uint64_t key = ((uint64_t)done << 20) | live;
        if (dead.count(key)) return false;
        // minimal ops: not done, and no other not-done op returned before this one was issued
        int64_t min_ret = INT64_MAX;
        for (size_t i = 0; i < ops.size(); i++)
            if (!(done & (1u << i))) min_ret = std::min(min_ret, ops[i].ret);
        for (size_t i = 0; i < ops.size(); i++) {
            if (done & (1u << i)) continue;
            if (ops[i].issue > min_ret) continue;
            if (must_precede[i] & ~done) continue;
            uint32_t l2 = live;
            if (!apply(ops[i], l2)) continue;
            order.push_back((int)i);
            if (search(done | (1u << i), l2)) return true;
            order.pop_back();
        }
        dead.insert(key);
        return false;
    }
};

// ---- state shared by the simulated threads -----------------------------------------------------------------------------
struct World {
    std::unique_ptr<ConcurrentSubjectRouter> router;
    std::unique_ptr<ConcurrentSubjectRouter> ctrl;   // a second, independent router: its observer performs operations on `router`
    std::unique_ptr<USubscription> ctrl_sub;
    std::vector<std::unique_ptr<USubscription>> subs;
    std::vector<RoutingKey> shared_keys;   // const keys built once by the controller and used by several threads at the same time
    int cb_yields = 0;
};
World* W = nullptr;

struct Callback {  // copied into the observer; logs entry / exit
    int obs;
    void operator()() const {
        int o = obs;
        int yields = W->cb_yields;
        int nop = sim::tag();
        sim::ev(E_CB_BEGIN, o, nop);
        for (int i = 0; i < yields; i++) sim::yield();
        sim::ev(E_CB_END, o, nop);
    }
};

thread_local const Json* tl_inner = nullptr;
thread_local int tl_inner_id = 0;
void do_op(const Json& op, int opid);
void ctrl_callback() {  // runs inside a delivery of the OTHER router (holding only that router's read lock)
    const Json* op = tl_inner;
    int id = tl_inner_id;
    tl_inner = nullptr;
    if (op) do_op(*op, id);
}

// the key of an operation: either built on the spot or one of the shared, pre-built key objects
struct KeyRef {
    std::unique_ptr<RoutingKey> own;
    const RoutingKey* k;
    explicit KeyRef(const Json& op) {
        if (op.get("sk", 0) && (size_t)op.get("ski", 0) < W->shared_keys.size()) k = &W->shared_keys[(size_t)op.get("ski", 0)];
        else { own = std::make_unique<RoutingKey>(build_key(pattern_of(op.at("pat")))); k = own.get(); }
    }
    const RoutingKey& get() const { return *k; }
};

void do_op(const Json& op, int opid) {
    const std::string& t = op.at("op").s;
    if (op.get("via_ctrl", 0) && W->ctrl) {
        // issue this operation from inside a callback of the control router
        RoutingKey ck = RoutingKeyBuilder{}.level("c").build();
        Json plain = op;
        plain.set("via_ctrl", 0);
        tl_inner = &plain;
        tl_inner_id = opid;
        W->ctrl->notify(ck);
        tl_inner = nullptr;
        return;
    }
    sim::set_tag(opid);
    if (t == "notify") {
        KeyRef kr(op);
        const RoutingKey& k = kr.get();
        sim::ev(E_ISSUE, opid, O_NOTIFY);
        size_t n = W->router->notify(k);
        sim::ev(E_RET, opid, (int)n);
    } else if (t == "subscribe") {
        RoutingKey k = build_key(pattern_of(op.at("pat")));
        int o = (int)op.at("obs").num();
        sim::ev(E_ISSUE, opid, O_SUBSCRIBE);
        auto s = std::make_unique<USubscription>(W->router->subscribe(k, Callback{o}));
        sim::ev(E_RET, opid, 0);
        W->subs[o] = std::move(s);
    } else if (t == "unsubscribe") {
        int o = (int)op.at("obs").num();
        sim::ev(E_ISSUE, opid, O_UNSUBSCRIBE);
        (*W->subs[o])->unsubscribe();
        sim::ev(E_RET, opid, 0);
    } else if (t == "shrink") {
        KeyRef kr(op);
        const RoutingKey& k = kr.get();
        sim::ev(E_ISSUE, opid, O_SHRINK);
        W->router->shrink(k);
        sim::ev(E_RET, opid, 0);
    } else if (t == "exists") {
        KeyRef kr(op);
        const RoutingKey& k = kr.get();
        sim::ev(E_ISSUE, opid, O_EXISTS);
        bool e = W->router->exists(k);
        sim::ev(E_RET, opid, e);
    } else if (t == "depth") {
        sim::ev(E_ISSUE, opid, O_DEPTH);
        size_t d = W->router->depth();
        sim::ev(E_RET, opid, (int)d);
    }
    sim::set_tag(0);
}

void body(const Json& prog) {
    World w;
    W = &w;
    w.router = std::make_unique<ConcurrentSubjectRouter>();
    w.subs.resize((size_t)prog.get("nobs", 0));
    w.cb_yields = (int)prog.get("cb_yields", 1);
    if (prog.has("shared")) {
        w.shared_keys.reserve(prog.at("shared").size());
        for (auto& pj : prog.at("shared").a) w.shared_keys.push_back(build_key(pattern_of(pj)));
    }
    if (prog.get("two_routers", 0)) {
        w.ctrl = std::make_unique<ConcurrentSubjectRouter>();
        w.ctrl_sub = std::make_unique<USubscription>(w.ctrl->subscribe(RoutingKeyBuilder{}.level("c").build(), [] { ctrl_callback(); }));
    }
    int opid = 1;
    for (auto& op : prog.at("init").a) do_op(op, opid++);
    const Json& th = prog.at("threads");
    std::vector<std::thread> ts;
    int base = 100;
    for (size_t t = 0; t < th.size(); t++) {
        ts.emplace_back([&, t, base] {
            int id = base;
            for (auto& op : th[t].a) {
                for (int i = 0; i < (int)op.get("pre", 0); i++) sim::yield();
                do_op(op, id++);
            }
        });
        base += 100;
    }
    for (auto& t : ts) t.join();
    if (prog.get("stale_epilogue", 0)) {
        // Sequential, on keys under "z" that no generated pattern reaches while they hold observers: an observer that invalidates
        // itself is removed lazily by the notify that follows; its handle is then STALE.  unsubscribe() on it reports that with
        // std::invalid_argument and must have no other effect — not on an observer subscribed later to the same key, not on the
        // router's lock, not after a shrink has visited the emptied node (which still has a populated child).
        using SelfView = tulz::Observer<>::SelfView;
        RoutingKey zi = RoutingKeyBuilder{}.level("z").level("q").build();
        RoutingKey zc = RoutingKeyBuilder{}.level("z").level("q").level("r").level("s").build();
        int hits = 0, later = 0, child = 0;
        USubscription h = w.router->subscribe(zi, [&hits](SelfView self) { hits++; self->invalidate(); });
        USubscription hc = w.router->subscribe(zc, [&child] { child++; });
        (void)w.router->notify(zi);
        (void)w.router->notify(zi);
        if (hits != 1) sim::violation("delivered-twice", "a self-invalidating observer was invoked " + std::to_string(hits) + " times by two notifies");
        if (prog.get("stale_epilogue", 0) > 1) {
            w.router->shrink(zi);
            w.router->shrink(RoutingKeyBuilder{}.all().all().build());
        }
        USubscription h2 = w.router->subscribe(zi, [&later] { later++; });
        try {
            h->unsubscribe();
        } catch (const std::invalid_argument&) {
            sim::Untracked u;
            g_extra["stale_unsubscribe_rejected"]++;
        }
        (void)w.router->notify(zi);
        (void)w.router->notify(zc);
        if (later != 1) sim::violation("stale-unsubscribe-side-effect", "after unsubscribe() of a stale handle the observer subscribed later to the same key was invoked " + std::to_string(later) + " times by one notify");
        if (child != 1) sim::violation("stale-unsubscribe-side-effect", "the observer below the emptied node was invoked " + std::to_string(child) + " times by one notify");
        h2->unsubscribe();
        hc->unsubscribe();
        (void)w.router->exists(zc);
        g_extra["stale_epilogues"]++;
    }
    // final probe from the controller: what is still subscribed is exactly what the model says
    do_op(Json::object().set("op", "notify").set("pat", Json::array().push(Json::array())), 9001);
    do_op(Json::object().set("op", "notify").set("pat", Json::array().push(Json::array()).push(Json::array())), 9002);
    do_op(Json::object().set("op", "notify").set("pat", Json::array().push(Json::array()).push(Json::array()).push(Json::array())), 9003);
    w.subs.clear();
    w.router.reset();
    w.ctrl_sub.reset();
    w.ctrl.reset();
    W = nullptr;
}

// ---- analysis ------------------------------------------------------------------------------------------------------------
void collect_ops(const Json& prog, std::vector<Op>& ops, std::vector<ObsInfo>& obs) {
    obs.assign((size_t)prog.get("nobs", 0), ObsInfo());
    auto add = [&](const Json& j, int id, int thread) {
        Op o;
        o.id = id; o.thread = thread;
        const std::string& t = j.at("op").s;
        o.type = t == "notify" ? O_NOTIFY : t == "subscribe" ? O_SUBSCRIBE : t == "unsubscribe" ? O_UNSUBSCRIBE : t == "shrink" ? O_SHRINK : t == "exists" ? O_EXISTS : O_DEPTH;
        if (j.has("pat")) o.pat = pattern_of(j.at("pat"));
        if (j.has("obs")) o.obs = (int)j.at("obs").num();
        if (o.type == O_SUBSCRIBE) {
            for (auto& l : o.pat) obs[o.obs].key.push_back(l[0]);
            obs[o.obs].initial = thread == 0;
        }
        ops.push_back(o);
    };
    int opid = 1;
    for (auto& op : prog.at("init").a) add(op, opid++, 0);
    int base = 100;
    const Json& th = prog.at("threads");
    for (size_t t = 0; t < th.size(); t++) {
        int id = base;
        for (auto& op : th[t].a) add(op, id++, (int)t + 1);
        base += 100;
    }
    Json a1 = Json::array().push(Json::array());
    Json a2 = Json::array().push(Json::array()).push(Json::array());
    Json a3 = Json::array().push(Json::array()).push(Json::array()).push(Json::array());
    add(Json::object().set("op", "notify").set("pat", a1), 9001, 0);
    add(Json::object().set("op", "notify").set("pat", a2), 9002, 0);
    add(Json::object().set("op", "notify").set("pat", a3), 9003, 0);
}

std::string op_str(const Op& o) {
    std::string s = "#" + std::to_string(o.id) + " " + op_name(o.type);
    if (o.type == O_SUBSCRIBE || o.type == O_UNSUBSCRIBE) s += " obs" + std::to_string(o.obs);
    if (o.type != O_UNSUBSCRIBE && o.type != O_DEPTH) s += " " + pat_str(o.pat);
    if (o.type == O_NOTIFY) {
        s += " delivered{";
        for (size_t i = 0; i < o.delivered.size(); i++) s += (i ? "," : "") + std::to_string(o.delivered[i]);
        s += "} ret=" + std::to_string(o.result);
    }
    if (o.type == O_EXISTS || o.type == O_DEPTH) s += " ret=" + std::to_string(o.result);
    s += " [" + std::to_string(o.issue) + "," + std::to_string(o.ret) + "]";
    return s;
}

void analyse(const Json& prog) {
    std::vector<Op> ops;
    std::vector<ObsInfo> obs;
    collect_ops(prog, ops, obs);
    std::map<int, Op*> byid;
    for (auto& o : ops) byid[o.id] = &o;
    struct CB { int obs, nop; int64_t begin, end; };
    std::vector<CB> cbs;
    auto& evs = sim::events();
    for (auto& e : evs) {
        if (e.kind == E_ISSUE && byid.count(e.a)) byid[e.a]->issue = e.seq;
        if (e.kind == E_RET && byid.count(e.a)) { byid[e.a]->ret = e.seq; byid[e.a]->result = e.b; }
        if (e.kind == E_CB_BEGIN) cbs.push_back({e.a, e.b, (int64_t)e.seq, -1});
        if (e.kind == E_CB_END)
            for (auto it = cbs.rbegin(); it != cbs.rend(); ++it)
                if (it->obs == e.a && it->nop == e.b && it->end < 0) { it->end = e.seq; break; }
    }
    for (auto& c : cbs) {
        if (!byid.count(c.nop)) sim::violation("callback-outside-notify", "observer " + std::to_string(c.obs) + " invoked outside any notify of this thread");
        Op& n = *byid[c.nop];
        if (std::find(n.delivered.begin(), n.delivered.end(), c.obs) != n.delivered.end())
            sim::violation("delivered-twice", "notify " + op_str(n) + " invoked observer " + std::to_string(c.obs) + " more than once");
        n.delivered.push_back(c.obs);
        if (!key_matches(n.pat, obs[c.obs].key)) sim::violation("delivered-to-non-matching", "notify " + op_str(n) + " invoked observer " + std::to_string(c.obs) + " whose key does not match");
    }
    for (auto& o : ops)
        if (o.issue < 0 || o.ret < 0) sim::violation("op-incomplete", "operation " + op_str(o) + " did not complete");

    // rule 3: once unsubscribe() has returned that observer is never invoked again
    for (auto& o : ops)
        if (o.type == O_UNSUBSCRIBE)
            for (auto& c : cbs)
                if (c.obs == o.obs && c.begin > o.ret)
                    sim::violation("invoked-after-unsubscribe", "observer " + std::to_string(c.obs) + " invoked at #" + std::to_string(c.begin) + " after " + op_str(o) + " had returned");
    // rule 2: a delivery in progress when a mutator was called must be over before the mutator returns
    for (auto& o : ops)
        if (o.type == O_SUBSCRIBE || o.type == O_UNSUBSCRIBE || o.type == O_SHRINK)
            for (auto& c : cbs) {
                g_extra["containment_pairs_checked"]++;
                if (c.begin < o.issue && o.ret < c.end)
                    sim::violation("mutation-during-delivery", op_str(o) + " was called and returned while the delivery to observer " + std::to_string(c.obs) + " (notify #" + std::to_string(c.nop) +
                                                                   ", #" + std::to_string(c.begin) + "..#" + std::to_string(c.end) + ") was in progress");
            }
    // upper bounds that do not depend on the linearisation point
    for (auto& o : ops) {
        std::set<std::vector<std::string>> ever;
        for (auto& s : ops)
            if (s.type == O_SUBSCRIBE && s.issue < o.ret) ever.insert(obs[s.obs].key);
        if (prog.get("stale_epilogue", 0) && o.id >= 9001) {   // the epilogue's own keys held subscriptions before the final probes
            ever.insert({"z", "q"});
            ever.insert({"z", "q", "r", "s"});
        }
        if (o.type == O_NOTIFY) {
            int64_t ub = 0;
            for (auto& k : ever) ub += key_matches(o.pat, k);
            if (o.result > ub) sim::violation("notify-count", op_str(o) + " returned more than the " + std::to_string(ub) + " matching keys that ever held a subscription");
        } else if (o.type == O_EXISTS) {
            bool may = o.pat.empty();
            for (auto& k : ever) may |= prefix_matches(o.pat, k);
            if (o.result && !may) sim::violation("exists-value", op_str(o) + " returned true although no key matching it was ever subscribed");
        } else if (o.type == O_DEPTH) {
            size_t d = 0;
            for (auto& k : ever) d = std::max(d, k.size());
            if (o.result > (int64_t)(1 + d) || o.result < 1) sim::violation("depth-value", op_str(o) + " is outside [1," + std::to_string(1 + d) + "]");
        }
    }
    // rule 1: linearizability
    if (ops.size() > 24 || obs.size() > 20) sim::violation("harness-limit", "history too long for the checker");
    Lin lin(ops, obs);
    // "no subscribe, unsubscribe or shrink takes effect while a delivery is in progress": a notify that had already begun
    // delivering when a mutator was CALLED cannot be affected by it, i.e. it is linearised before that mutator.
    for (size_t m = 0; m < ops.size(); m++) {
        if (ops[m].type != O_SUBSCRIBE && ops[m].type != O_UNSUBSCRIBE && ops[m].type != O_SHRINK) continue;
        for (size_t n = 0; n < ops.size(); n++) {
            if (ops[n].type != O_NOTIFY) continue;
            for (auto& c : cbs)
                if (c.nop == ops[n].id && c.begin < ops[m].issue) { lin.must_precede[m] |= 1u << n; g_extra["delivery_before_mutator_constraints"]++; break; }
        }
    }
    if (!lin.search(0, 0)) {
        std::string d = "no sequential order of the operations explains the observed deliveries; history:";
        for (auto& o : ops) d += " | " + op_str(o);
        sim::violation("not-linearizable", d);
    }
    g_extra["histories_checked"]++;
    g_extra["operations_checked"] += ops.size();
    g_extra["callbacks_observed"] += cbs.size();
    g_extra["lin_states_pruned"] += lin.dead.size();
    // probe: a mutator was issued while some delivery was in progress (then it had to wait)
    for (auto& o : ops)
        if (o.type == O_SUBSCRIBE || o.type == O_UNSUBSCRIBE || o.type == O_SHRINK)
            for (auto& c : cbs)
                if (c.begin < o.issue && o.issue < c.end) { g_extra["probe_mutator_issued_during_delivery"]++; break; }
    for (auto& o : ops)
        if (o.type == O_NOTIFY)
            for (auto& c : cbs)
                if (c.nop != o.id && c.begin < o.issue && o.issue < c.end) { g_extra["probe_notify_issued_during_other_delivery"]++; break; }
}

void prewarm() {
    // libstdc++ fills lazily initialised locale / ctype caches on first <regex> use: do it before any simulated thread exists
    static bool done = false;
    if (done) return;
    done = true;
    std::regex r("a|b|.*");
    std::string s = "abcxyz";
    (void)std::regex_match(s, r);
    auto& ct = std::use_facet<std::ctype<char>>(std::locale());
    char buf[256];
    for (int c = 0; c < 256; c++) { buf[c] = (char)c; (void)ct.narrow((char)c, 0); (void)ct.widen((char)c); (void)ct.tolower((char)c); }
    char out[256];
    ct.narrow(buf, buf + 256, 0, out);
    ct.widen(buf, buf + 256, out);
    RoutingKey k = RoutingKeyBuilder{}.level("a").all().level(std::regex("x|y")).build();
    (void)k;
}

}  // namespace

namespace hx {
const char* NAME = "router_sim";
std::map<std::string, uint64_t>& extra() { return g_extra; }
const char* event_name(int k) {
    switch (k) {
        case E_ISSUE: return "issue(op,type)";
        case E_RET: return "return(op,result)";
        case E_CB_BEGIN: return "callback-begin(observer,notify-op)";
        case E_CB_END: return "callback-end(observer,notify-op)";
    }
    return "?";
}
bool owns(const std::string& prop, const std::string& c) {
    if (prop == "C15") return c.rfind("tsan:", 0) == 0;
    if (prop != "C11") return false;
    static const std::set<std::string> s = {"not-linearizable", "mutation-during-delivery", "invoked-after-unsubscribe", "delivered-twice", "delivered-to-non-matching", "callback-outside-notify",
                                            "notify-count", "exists-value", "depth-value", "router-deadlock", "op-incomplete", "terminate", "tulz-assert", "unexpected-exception",
                                            "stale-unsubscribe-side-effect"};
    return s.count(c) > 0 || c.rfind("asan:", 0) == 0;
}

// (names that are proper prefixes of one another on purpose: a level matches by equality / FULL regex match only)
static const std::vector<std::vector<std::string>> KEYS = {{"a"}, {"b"}, {"a", "x"}, {"a", "y"}, {"b", "x"}, {"a", "x", "p"}, {"ab"}, {"a", "xy"}};

Json key_json(const std::vector<std::string>& k) {
    Json p = Json::array();
    for (auto& l : k) p.push(Json::array().push(Json(l)));
    return p;
}
std::vector<std::vector<std::string>> g_used_keys;  // generation-time only: keys somebody subscribes to in this program
Json random_pattern(sim::Rng& g) {
    // start from a concrete key (mostly one that is subscribed somewhere in the program) and generalise some levels
    const std::vector<std::string>& k = (!g_used_keys.empty() && g.below(10) < 7) ? g_used_keys[g.below((uint32_t)g_used_keys.size())] : KEYS[g.below((uint32_t)KEYS.size())];
    Json p = Json::array();
    for (auto& l : k) {
        int r = (int)g.below(10);
        if (r < 5) p.push(Json::array().push(Json(l)));
        else if (r < 8) p.push(Json::array());
        else {
            Json alt = Json::array();
            alt.push(Json(l));
            alt.push(Json(l == "a" ? "b" : l == "b" ? "a" : l == "x" ? "y" : "x"));
            p.push(alt);
        }
    }
    return p;
}

void generate(sim::Rng& g, const std::string& prop, const std::string& tier, Json& program, sim::Config& cfg) {
    bool thorough = tier == "thorough";
    program = Json::object();
    int nobs = 0;
    Json init = Json::array();
    int ninit = g.range(0, 4);
    std::vector<int> unsub_pool;  // initial observers nobody has unsubscribed yet
    g_used_keys.clear();
    for (int i = 0; i < ninit; i++) {
        Json op = Json::object();
        auto& key = KEYS[g.below((uint32_t)KEYS.size())];
        g_used_keys.push_back(key);
        op.set("op", "subscribe").set("obs", nobs).set("pat", key_json(key));
        unsub_pool.push_back(nobs++);
        init.push(op);
    }
    int nt = g.range(2, thorough ? 6 : 5);   // up to 5 (6) threads so that the lock's queue can hold writer, reader, writer, reader behind a holder
    bool two_routers = g.below(4) == 0;
    program.set("two_routers", (int)two_routers);
    Json threads = Json::array();
    int total = 0;
    for (int t = 0; t < nt; t++) {
        Json ops = Json::array();
        int n = g.range(1, nt >= 4 ? 2 : (thorough ? 4 : 3));
        std::vector<int> own;
        for (int i = 0; i < n; i++) {
            Json op = Json::object();
            int r = (int)g.below(100);
            if (prop == "C15" && r >= 70) r = 78 + (int)g.below(22);   // data-race runs: more shrink / exists / depth traffic
            if (r < 40) op.set("op", "notify").set("pat", random_pattern(g));
            else if (r < 60) {
                auto& key = KEYS[g.below((uint32_t)KEYS.size())];
                g_used_keys.push_back(key);
                op.set("op", "subscribe").set("obs", nobs).set("pat", key_json(key));
                own.push_back(nobs++);
            }
            else if (r < 78) {
                bool from_own = !own.empty() && (unsub_pool.empty() || g.below(2) == 0);
                if (from_own) { size_t k = g.below((uint32_t)own.size()); op.set("op", "unsubscribe").set("obs", own[k]); own.erase(own.begin() + k); }
                else if (!unsub_pool.empty()) { size_t k = g.below((uint32_t)unsub_pool.size()); op.set("op", "unsubscribe").set("obs", unsub_pool[k]); unsub_pool.erase(unsub_pool.begin() + k); }
                else op.set("op", "notify").set("pat", random_pattern(g));
            } else if (r < 86) op.set("op", "shrink").set("pat", random_pattern(g));
            else if (r < 94) op.set("op", "exists").set("pat", random_pattern(g));
            else op.set("op", "depth");
            op.set("pre", g.range(0, 2));
            if (two_routers && g.below(4) == 0) op.set("via_ctrl", 1);
            ops.push(op);
            total++;
        }
        threads.push(ops);
    }
    // some notify/shrink/exists operations use a key OBJECT that is shared between threads (same pattern -> same object)
    {
        Json shared = Json::array();
        std::vector<std::string> seen;
        for (auto& t : threads.a)
            for (auto& op : t.a) {
                const std::string& o = op.at("op").s;
                if ((o != "notify" && o != "shrink" && o != "exists") || g.below(2)) continue;
                std::string d = op.at("pat").dump();
                size_t idx = std::find(seen.begin(), seen.end(), d) - seen.begin();
                if (idx == seen.size()) { seen.push_back(d); shared.push(op.at("pat")); }
                op.set("sk", 1).set("ski", (int)idx);
            }
        program.set("shared", shared);
    }
    program.set("stale_epilogue", prop != "C15" && g.below(4) == 0 ? 1 + (int)g.below(2) : 0);   // 2 = with shrink in between
    program.set("nobs", nobs).set("cb_yields", g.range(0, 3)).set("init", init).set("threads", threads);
    drv::draw_sched(g, cfg, true, 40 + 30 * total);
    cfg.step_cap = 30000;
}

void execute(const Json& program, const sim::Config& cfg, const std::string&) {
    prewarm();
    sim::set_deadlock_classifier([](const std::vector<sim::ThreadInfo>&) { return std::string("router-deadlock"); });
    sim::run(cfg, [&] {
        try {
            body(program);
        } catch (const std::exception& e) {  // valid use of the API must not throw: an escaping exception is an outcome to report, not a harness error
            sim::violation("unexpected-exception", std::string("exception escaped from tulz under valid use: ") + e.what());
        }
    });
    analyse(program);
}

std::string describe(const Json& p) {
    auto one = [](const Json& op) {
        std::string s = op.at("op").s;
        if (op.has("obs")) s += std::to_string(op.at("obs").num());
        if (op.has("pat")) s += pat_str(pattern_of(op.at("pat")));
        if (op.get("sk", 0)) s += "#k" + std::to_string(op.get("ski", 0));
        if (op.get("via_ctrl", 0)) s = "viaCtrl(" + s + ")";
        return s;
    };
    std::string s = "init:";
    for (auto& op : p.at("init").a) s += " " + one(op);
    const Json& th = p.at("threads");
    for (size_t t = 0; t < th.size(); t++) {
        s += " | T" + std::to_string(t + 1) + ":";
        for (auto& op : th[t].a) s += " " + one(op);
    }
    return s + " (cb_yields=" + std::to_string(p.get("cb_yields", 0)) + (p.get("stale_epilogue", 0) ? ", stale-handle epilogue" : "") + ")";
}

std::vector<Json> shrink(const Json& p) {
    std::vector<Json> out;
    // an op may only be removed if no later op depends on it (subscribe <- unsubscribe of the same observer)
    auto uses_obs = [&](const Json& prog, int o) {
        for (auto& t : prog.at("threads").a)
            for (auto& op : t.a)
                if (op.at("op").s == "unsubscribe" && op.at("obs").num() == o) return true;
        return false;
    };
    const Json& th = p.at("threads");
    if (th.size() > 1)
        for (size_t t = 0; t < th.size(); t++) {
            Json c = p;
            c.at("threads").a.erase(c.at("threads").a.begin() + t);
            bool ok = true;
            for (auto& op : th[t].a)
                if (op.at("op").s == "subscribe" && uses_obs(c, (int)op.at("obs").num())) ok = false;
            if (ok) out.push_back(c);
        }
    for (size_t t = 0; t < th.size(); t++)
        for (size_t i = 0; i < th[t].size(); i++) {
            const Json& op = th[t][i];
            Json c = p;
            auto& v = c.at("threads")[t].a;
            v.erase(v.begin() + i);
            if (op.at("op").s == "subscribe" && uses_obs(c, (int)op.at("obs").num())) continue;
            if (v.empty() && th.size() == 1) continue;
            if (v.empty()) c.at("threads").a.erase(c.at("threads").a.begin() + t);
            out.push_back(c);
        }
    for (size_t i = 0; i < p.at("init").size(); i++) {
        const Json& op = p.at("init")[i];
        Json c = p;
        c.at("init").a.erase(c.at("init").a.begin() + i);
        if (!uses_obs(c, (int)op.at("obs").num())) out.push_back(c);
    }
    if (p.get("cb_yields", 0) > 0) { Json c = p; c.set("cb_yields", p.get("cb_yields", 0) - 1); out.push_back(c); }
    if (p.get("stale_epilogue", 0)) { Json c = p; c.set("stale_epilogue", 0); out.push_back(c); }
    for (size_t t = 0; t < th.size(); t++)
        for (size_t i = 0; i < th[t].size(); i++)
            if (th[t][i].get("via_ctrl", 0)) { Json c = p; c.at("threads")[t][i].set("via_ctrl", 0); out.push_back(c); }
    for (size_t t = 0; t < th.size(); t++)
        for (size_t i = 0; i < th[t].size(); i++)
            if (th[t][i].get("pre", 0)) { Json c = p; c.at("threads")[t][i].set("pre", 0); out.push_back(c); }
    return out;
}
}  // namespace hx
