// subject_sim — tulz::Subject under callbacks that mutate it while a notification round is in flight.  Serves C10.
// Single threaded: the simulator owns the decision "what happens at each callback" (0-2 injected actions on any target).
#include <tulz/observer/Subject.h>

#include <deque>
#include <memory>
#include <set>
#include <string>
#include <tuple>

#include "common.h"

namespace {
enum : int {
    E_TOP = 100,       // a = op code, b = target
    E_INVOKE = 101,    // a = observer id, b = round depth
    E_ACTION = 102,    // a = action code, b = target
    E_ROUND = 103,     // a = round value, b = depth
    E_ROUND_END = 104,
    E_DTOR = 105,      // tracked observer destroyed
};
enum : int { A_NONE = 0, A_SUB, A_UNSUB_H, A_UNSUB_S, A_MUTE, A_UNMUTE, A_INVAL, A_NOTIFY, A_COUNT };
const char* action_name(int a) {
    static const char* n[] = {"none", "subscribe", "unsubscribe(handle)", "unsubscribe(subject)", "mute", "unmute", "invalidate", "notify"};
    return a >= 0 && a < A_COUNT ? n[a] : "?";
}

std::map<std::string, uint64_t> g_extra;

// Captured by value in every observer callable: tells whether the callable object itself is still alive.
struct Canary {
    static std::set<const Canary*>& live() { static std::set<const Canary*> s; return s; }
    Canary() { live().insert(this); }
    Canary(const Canary&) { live().insert(this); }
    Canary(Canary&&) noexcept { live().insert(this); }
    Canary& operator=(const Canary&) = default;
    ~Canary() { live().erase(this); }
};

struct MObs {
    int id = 0, kind = 0;   // kind: 0 plain callable, 1 SelfView callable, 2 unique_ptr<Derived>
    bool subscribed = true, muted = false, valid = true;
    int dtors = 0;
    int calls = 0;
};

template <class... Args>
struct ArgGen;
template <>
struct ArgGen<> {
    static std::tuple<> make(int) { return {}; }
};
template <>
struct ArgGen<int> {
    static std::tuple<int> make(int v) { return {v}; }
};
template <>
struct ArgGen<const std::string&> {
    static std::tuple<std::string> make(int v) { return {"const-ref-string-payload-number-" + std::to_string(v) + "-long-enough-for-the-heap"}; }
};
template <>
struct ArgGen<int, std::string> {
    static std::tuple<int, std::string> make(int v) { return {v, "by-value-string-payload-number-" + std::to_string(v) + "-long-enough-for-the-heap"}; }
};

template <class... Args>
struct Scenario {
    using Subj = tulz::Subject<Args...>;
    using Sub = tulz::Subscription<Args...>;
    using Obs = tulz::Observer<Args...>;
    using SelfView = typename Obs::SelfView;
    using Stored = decltype(ArgGen<Args...>::make(0));

    struct TrackedObs : tulz::EternalObserver<Args...> {
        Scenario* sc;
        int id;
        TrackedObs(Scenario* s, int i, typename Obs::Func f) : tulz::EternalObserver<Args...>(std::move(f)), sc(s), id(i) {}
        ~TrackedObs() override {
            sim::ev(E_DTOR, id, 0);
            if (++sc->obs[id].dtors > 1) sim::violation("observer-destroyed-twice", "tracked observer " + std::to_string(id) + " destroyed twice");
        }
    };

    struct Round {
        std::vector<int> ids;
        size_t pos = 0;
        int value = 0;
    };

    const Json& prog;
    std::unique_ptr<Subj> subject, other;
    std::deque<MObs> obs;
    std::deque<std::unique_ptr<Sub>> handles;
    std::vector<Round> rounds;
    int next_value = 1;
    int inject = 2, max_depth = 3;
    uint64_t injected = 0, invocations = 0;

    explicit Scenario(const Json& p) : prog(p) {}

    bool invocable(int y) const { return obs[y].subscribed && obs[y].valid && !obs[y].muted; }
    void pass(int y) {  // the notify loop has moved past y: an invalid observer is unsubscribed right after its turn
        if (obs[y].subscribed && !obs[y].valid) obs[y].subscribed = false;
    }
    std::vector<int> live() const {
        std::vector<int> v;
        for (auto& o : obs)
            if (o.subscribed) v.push_back(o.id);
        return v;
    }

    // ---- what the real observers call
    void on_invoke(int id, const Stored& got, const Canary* canary) {
        sim::ev(E_INVOKE, id, (int)rounds.size());
        invocations++;
        if (rounds.empty()) sim::violation("invoked-outside-notify", "observer " + std::to_string(id) + " invoked while no notify() is in progress");
        size_t ri = rounds.size() - 1;
        {
            Round& r = rounds[ri];
            size_t k = r.pos;
            while (k < r.ids.size() && r.ids[k] != id) {
                int y = r.ids[k];
                if (invocable(y))
                    sim::violation("observer-skipped", "observer " + std::to_string(y) + " is subscribed, valid and unmuted at its turn but observer " + std::to_string(id) + " was invoked instead");
                pass(y);
                k++;
            }
            if (k == r.ids.size()) {
                const char* why = !obs[id].subscribed ? "it had been unsubscribed" : "it is not part of the remainder of this round (added during the round, or already invoked)";
                sim::violation("unexpected-invocation", "observer " + std::to_string(id) + " invoked although " + why);
            }
            if (!obs[id].subscribed) sim::violation("invoked-after-unsubscribe", "observer " + std::to_string(id) + " invoked after it was unsubscribed");
            if (!obs[id].valid) sim::violation("invoked-after-invalidate", "observer " + std::to_string(id) + " invoked after it was invalidated");
            if (obs[id].muted) sim::violation("invoked-while-muted", "observer " + std::to_string(id) + " invoked while muted");
            if (!(got == ArgGen<Args...>::make(r.value))) sim::violation("wrong-arguments", "observer " + std::to_string(id) + " received other argument values than notify() was given");
            r.pos = k + 1;
            obs[id].calls++;
        }
        // ---- the simulator decides what overlaps with this running round
        if (inject > 0) {
            int n = sim::choose(inject == 1 ? 5 : 3, 0);
            if (inject == 1) n = n >= 3 ? n - 2 : 0;  // {0,0,0,1,2}
            for (int i = 0; i < n; i++) action(id, true);
        }
        // The callable of an observer that is still subscribed must still exist: muting or invalidating a running observer
        // (itself, or the one that started the nested round we are in) must not destroy the code that is executing.
        // (Unsubscribing it — directly, or lazily by a nested round passing over an invalidated observer — does, by design.)
        if (obs[id].subscribed && !Canary::live().count(canary))
            sim::violation("callable-destroyed-while-running", "the callable of observer " + std::to_string(id) + " was destroyed during its own invocation although the observer is still subscribed");
        // right after the call an invalid observer is removed
        pass(id);
    }

    // one drawn action; `self` = id of the running observer (or -1 at top level)
    void action(int self, bool drawn, int code = 0, int pick = 0) {
        int a = code;
        if (drawn) a = 1 + sim::choose(A_COUNT - 1, 0);  // default of a minimised script: subscribe (harmless)
        if (a == A_NOTIFY && (int)rounds.size() >= max_depth) a = A_NONE;
        std::vector<int> lv = live();
        int target = -1;
        if (a >= A_UNSUB_H && a <= A_INVAL) {
            if (lv.empty()) a = A_NONE;
            else target = lv[drawn ? sim::choose((int)lv.size(), 0) : pick % lv.size()];
        }
        sim::ev(drawn ? E_ACTION : E_TOP, a, target);
        if (drawn && a != A_NONE) {
            injected++;
            sim::note_nontrivial();
            g_extra[std::string("injected_") + action_name(a)]++;
            if (target == self) g_extra["injected_on_self"]++;
            else if (target >= 0 && !rounds.empty()) {
                auto& r = rounds.back();
                bool later = false;
                for (size_t k = r.pos; k < r.ids.size(); k++) later |= r.ids[k] == target;
                g_extra[later ? "injected_on_not_yet_called" : "injected_on_already_called_or_new"]++;
            }
        }
        switch (a) {
            case A_SUB: subscribe(drawn ? sim::choose(3, 0) : pick % 3); break;
            case A_UNSUB_H:
                obs[target].subscribed = false;
                handles[target]->unsubscribe();
                if (handles[target]->isValid()) sim::violation("handle-valid-after-unsubscribe", "handle of observer " + std::to_string(target) + " still valid after unsubscribe()");
                break;
            case A_UNSUB_S:
                obs[target].subscribed = false;
                subject->unsubscribe(*handles[target]);
                if (handles[target]->isValid()) sim::violation("handle-valid-after-unsubscribe", "handle of observer " + std::to_string(target) + " still valid after Subject::unsubscribe()");
                break;
            case A_MUTE:
                obs[target].muted = true;
                handles[target]->mute();
                if (!handles[target]->isMuted()) sim::violation("mute-state", "isMuted() false after mute()");
                break;
            case A_UNMUTE:
                obs[target].muted = false;
                handles[target]->unmute();
                if (handles[target]->isMuted()) sim::violation("mute-state", "isMuted() true after unmute()");
                break;
            case A_INVAL:
                obs[target].valid = false;
                handles[target]->getObserver()->invalidate();
                break;
            case A_NOTIFY: notify(); break;
            default: break;
        }
    }

    void subscribe(int kind) {
        int id = (int)obs.size();
        obs.push_back(MObs{id, kind});
        Scenario* self = this;
        std::unique_ptr<Sub> h;
        if (kind == 0) {
            h = std::make_unique<Sub>(subject->subscribe([self, id, cn = Canary()](Args... a) {
                Scenario* s = self; int i = id;           // copy out: the closure may be destroyed by an action
                s->on_invoke(i, Stored(a...), &cn);
            }));
        } else if (kind == 1) {
            h = std::make_unique<Sub>(subject->subscribe([self, id, cn = Canary()](SelfView view, Args... a) {
                Scenario* s = self; int i = id;
                if (!view->isValid()) sim::violation("invoked-after-invalidate", "SelfView of a running observer reports invalid");
                s->on_invoke(i, Stored(a...), &cn);
            }));
        } else {
            auto p = std::make_unique<TrackedObs>(this, id, [self, id, cn = Canary()](Args... a) {
                Scenario* s = self; int i = id;
                s->on_invoke(i, Stored(a...), &cn);
            });
            h = std::make_unique<Sub>(subject->subscribe(std::move(p)));
        }
        if (!h->isValid()) sim::violation("fresh-handle-invalid", "a fresh subscription handle reports invalid");
        if (h->isMuted()) sim::violation("mute-state", "a fresh subscription is muted");
        handles.push_back(std::move(h));
    }

    void notify() {
        int value = next_value++;
        Round r;
        r.ids = live();
        r.value = value;
        rounds.push_back(std::move(r));
        sim::ev(E_ROUND, value, (int)rounds.size());
        if ((int)rounds.size() > 1) g_extra["nested_rounds"]++;
        std::apply([&](auto&&... a) { subject->notify(a...); }, ArgGen<Args...>::make(value));
        Round& rr = rounds.back();
        for (size_t k = rr.pos; k < rr.ids.size(); k++) {
            int y = rr.ids[k];
            if (invocable(y)) sim::violation("observer-missed", "round " + std::to_string(value) + " ended without invoking observer " + std::to_string(y) + " (subscribed, valid, unmuted)");
            pass(y);
        }
        sim::ev(E_ROUND_END, value, (int)rounds.size());
        rounds.pop_back();
    }

    void run() {
        subject = std::make_unique<Subj>();
        other = std::make_unique<Subj>();
        inject = (int)prog.get("inject", 2);
        max_depth = (int)prog.get("max_depth", 3);
        for (auto& op : prog.at("ops").a) {
            const std::string& o = op.at("op").s;
            int t = (int)op.get("t", 0);
            if (o == "sub") action(-1, false, A_SUB, t);
            else if (o == "unsub_h") action(-1, false, A_UNSUB_H, t);
            else if (o == "unsub_s") action(-1, false, A_UNSUB_S, t);
            else if (o == "mute") action(-1, false, A_MUTE, t);
            else if (o == "unmute") action(-1, false, A_UNMUTE, t);
            else if (o == "inval") action(-1, false, A_INVAL, t);
            else if (o == "notify") action(-1, false, A_NOTIFY, t);
            else if (o == "move") {
                auto lv = live();
                if (!lv.empty()) {
                    int y = lv[t % lv.size()];
                    Sub tmp = std::move(*handles[y]);
                    if (handles[y]->isValid()) sim::violation("stale-handle-valid", "a moved-from handle reports valid");
                    bool threw = false;
                    try { subject->unsubscribe(*handles[y]); } catch (const std::invalid_argument&) { threw = true; }
                    if (!threw) sim::violation("stale-unsubscribe-accepted", "Subject::unsubscribe accepted a moved-from handle");
                    *handles[y] = std::move(tmp);
                    if (!handles[y]->isValid()) sim::violation("fresh-handle-invalid", "handle invalid after being moved back");
                    Sub& same = *handles[y];
                    *handles[y] = std::move(same);   // self-move-assignment must leave a live handle alone
                    if (!handles[y]->isValid()) sim::violation("fresh-handle-invalid", "a live handle is invalid after being move-assigned to itself");
                }
            } else if (o == "foreign") {
                Sub f = other->subscribe([](Args...) {});
                bool threw = false;
                try { subject->unsubscribe(f); } catch (const std::invalid_argument&) { threw = true; }
                if (!threw) sim::violation("foreign-unsubscribe-accepted", "Subject::unsubscribe accepted a handle of another Subject");
                if (!f.isValid()) sim::violation("fresh-handle-invalid", "foreign handle invalidated by a rejected unsubscribe");
            }
            // definite facts about handles
            for (auto& ob : obs) {
                if (!ob.subscribed && handles[ob.id]->isValid()) sim::violation("handle-valid-after-unsubscribe", "handle of observer " + std::to_string(ob.id) + " valid although it is not subscribed");
                if (ob.subscribed && ob.valid && !handles[ob.id]->isValid()) sim::violation("live-handle-invalid", "handle of subscribed observer " + std::to_string(ob.id) + " reports invalid");
            }
            bool any_live = false, any_sub = false;
            for (auto& ob : obs) { any_live |= ob.subscribed && ob.valid; any_sub |= ob.subscribed; }
            if (any_live && !subject->hasSubscriptions()) sim::violation("has-subscriptions", "hasSubscriptions() is false although a valid observer is subscribed");
            if (!any_sub && subject->hasSubscriptions()) sim::violation("has-subscriptions", "hasSubscriptions() is true although every observer was unsubscribed");
        }
        subject.reset();
        other.reset();
        for (auto& ob : obs)
            if (ob.kind == 2 && ob.dtors != 1) sim::violation("observer-not-destroyed-once", "tracked observer " + std::to_string(ob.id) + " destroyed " + std::to_string(ob.dtors) + " times by the time the Subject died");
        g_extra["invocations"] += invocations;
        g_extra["actions_injected_inside_rounds"] += injected;
        if (injected) g_extra["runs_with_injection"]++;
    }
};

template <class... Args>
void run_sig(const Json& p) {
    Scenario<Args...> s(p);
    s.run();
}

}  // namespace

namespace hx {
const char* NAME = "subject_sim";
std::map<std::string, uint64_t>& extra() { return g_extra; }
const char* event_name(int k) {
    switch (k) {
        case E_TOP: return "top-level-op(action,target)";
        case E_INVOKE: return "observer-invoked(id,depth)";
        case E_ACTION: return "INJECTED(action,target)";
        case E_ROUND: return "notify-begin(value,depth)";
        case E_ROUND_END: return "notify-end";
        case E_DTOR: return "observer-destroyed";
    }
    return "?";
}
bool owns(const std::string& prop, const std::string& c) {
    if (prop != "C10") return false;
    return c != "stepcap" && c != "deadlock";
}

void generate(sim::Rng& g, const std::string&, const std::string& tier, Json& program, sim::Config& cfg) {
    bool thorough = tier == "thorough";
    program = Json::object();
    program.set("sig", (int)g.below(4));
    static const int inj[] = {0, 1, 2, 2};
    program.set("inject", inj[g.below(4)]).set("max_depth", g.range(1, 3));
    Json ops = Json::array();
    int n = g.range(2, thorough ? 16 : 10);
    int subs = 0;
    for (int i = 0; i < n; i++) {
        Json op = Json::object();
        int r = (int)g.below(100);
        const char* o;
        if (subs == 0 || r < 30) { o = "sub"; subs++; }
        else if (r < 55) o = "notify";
        else if (r < 62) o = "unsub_h";
        else if (r < 68) o = "unsub_s";
        else if (r < 75) o = "mute";
        else if (r < 81) o = "unmute";
        else if (r < 87) o = "inval";
        else if (r < 94) o = "move";
        else o = "foreign";
        op.set("op", o).set("t", (int)g.below(12));
        ops.push(op);
    }
    Json last = Json::object();
    last.set("op", "notify").set("t", 0);
    ops.push(last);
    program.set("ops", ops);
    cfg.strategy = sim::UNIFORM;
    cfg.step_cap = 100000;
    cfg.clock_step_max_ms = 0;
}

void execute(const Json& program, const sim::Config& cfg, const std::string&) {
    sim::run(cfg, [&] {
        try {
            switch ((int)program.get("sig", 0)) {
                case 0: run_sig<>(program); break;
                case 1: run_sig<int>(program); break;
                case 2: run_sig<const std::string&>(program); break;
                default: run_sig<int, std::string>(program); break;
            }
        } catch (const std::exception& e) {
            sim::violation("unexpected-exception", std::string("exception escaped from tulz under valid use: ") + e.what());
        }
    });
}

std::string describe(const Json& p) {
    static const char* sigs[] = {"Subject<>", "Subject<int>", "Subject<const string&>", "Subject<int,string>"};
    std::string s = std::string(sigs[p.get("sig", 0)]) + " inject=" + std::to_string(p.get("inject", 0)) + " depth<=" + std::to_string(p.get("max_depth", 3)) + ":";
    for (auto& op : p.at("ops").a) s += " " + op.at("op").s + (op.at("op").s == "notify" || op.at("op").s == "foreign" ? "" : std::to_string(op.get("t", 0)));
    return s;
}

std::vector<Json> shrink(const Json& p) {
    std::vector<Json> out;
    const Json& ops = p.at("ops");
    for (size_t i = 0; i < ops.size(); i++) { Json c = p; c.at("ops").a.erase(c.at("ops").a.begin() + i); out.push_back(c); }
    for (size_t i = 0; i < ops.size(); i++)
        if (ops[i].get("t", 0) > 0) { Json c = p; c.at("ops")[i].set("t", 0); out.push_back(c); }
    if (p.get("sig", 0) > 0) { Json c = p; c.set("sig", 0); out.push_back(c); }
    if (p.get("max_depth", 3) > 1) { Json c = p; c.set("max_depth", p.get("max_depth", 3) - 1); out.push_back(c); }
    return out;
}
}  // namespace hx
