// resource_sim — tulz::rwp::Resource / ReadLock / WriteLock under the deterministic scheduler.
// Serves C01 (exclusion), C02 (no lost wake-up, back to idle), C03 (FIFO), C12 (readers share), C15 (T-flavour).
#include <tulz/threading/rwp/ReadLock.h>
#include <tulz/threading/rwp/Resource.h>
#include <tulz/threading/rwp/WriteLock.h>

#include <memory>
#include <thread>

#include "common.h"

using tulz::rwp::ReadLock;
using tulz::rwp::Resource;
using tulz::rwp::WriteLock;

namespace {
enum : int {
    E_ISSUE = 100,     // a = request id, b = 1 write / 0 read
    E_ACQ = 101,       // lock*() returned / guard constructed
    E_REL_CALL = 102,  // about to call unlock*() / leave the guard scope
    E_REL_RET = 103,   // unlock returned
    E_BARRIER = 104,   // a = barrier id: arrived inside the critical section
};
constexpr int TAG_BARRIER = 1000000;

// harness-side monitor (not visible to TSan: only touched inside sim::Untracked)
struct Monitor {
    int readers = 0, writers = 0;
    void enter(bool w, int rid) {
        sim::Untracked u;
        if (w) writers++; else readers++;
        if (writers > 1 || (writers == 1 && readers >= 1)) {
            char b[128];
            snprintf(b, sizeof b, "request %d (%s) entered while writers=%d readers=%d", rid, w ? "write" : "read", writers, readers);
            sim::violation("overlap", b);
        }
    }
    void leave(bool w) {
        sim::Untracked u;
        if (w) writers--; else readers--;
    }
};

std::map<std::string, uint64_t> g_extra;

struct SectionAbort {};   // thrown out of a guarded critical section: the guard's destructor must release the lock during unwinding

struct Inner {   // optional nested critical section on a SECOND resource, taken while the outer lock is held (fixed order A -> B)
    Resource* res;
    Monitor* mon;
    bool w, guard;
    int yields;
};
void section(Resource& res, Monitor& mon, int rid, bool w, bool guard, int yields, sim::Barrier* bar, const Inner* inner = nullptr, int residx = 0, bool throws = false,
             const bool* gate = nullptr) {
    sim::set_tag(rid);
    sim::ev(E_ISSUE, rid, (int)w | (residx << 1));
    auto inside = [&] {
        sim::ev(E_ACQ, rid, w);
        sim::set_tag(0);
        mon.enter(w, rid);
        for (int i = 0; i < yields; i++) sim::yield();
        if (inner) section(*inner->res, *inner->mon, rid + 50, inner->w, inner->guard, inner->yields, nullptr, nullptr, 1);
        if (gate) {   // convoy scenario: stay inside until the controller opens the gate
            sim::set_tag(TAG_BARRIER);
            sim::wait_until([gate] { return *gate; });
            sim::set_tag(0);
        }
        if (bar) {
            sim::set_tag(TAG_BARRIER);
            sim::ev(E_BARRIER, rid, 0);
            bar->arrive_and_wait();
            sim::set_tag(0);
        }
        mon.leave(w);
        sim::ev(E_REL_CALL, rid, w);
        if (throws && guard) throw SectionAbort{};
    };
    if (guard) {
        try {
            if (w) { WriteLock l{res}; inside(); }
            else { ReadLock l{res}; inside(); }
        } catch (const SectionAbort&) {
        }
    } else {
        if (w) { res.lockWrite(); inside(); res.unlockWrite(); }
        else { res.lockRead(); inside(); res.unlockRead(); }
    }
    sim::ev(E_REL_RET, rid, w);
}

struct Req {
    int rid = 0; bool w = false; int res = 0;
    int64_t issue = -1, acq = -1, rel_ret = -1;
    std::vector<int64_t> parks;
    int tid = -1;
};

// ---- history analysis -------------------------------------------------------------------------------------------------
void analyse(const std::string& prop) {
    (void)prop;
    std::map<int, Req> reqs;
    auto& evs = sim::events();
    std::map<int, int> pending;   // simulated thread -> the request it is inside lock*() for (between E_ISSUE and E_ACQ)
    for (auto& e : evs) {
        switch (e.kind) {
            case E_ISSUE: { auto& r = reqs[e.a]; r.rid = e.a; r.w = e.b & 1; r.res = e.b >> 1; r.issue = e.seq; r.tid = e.tid; pending[e.tid] = e.a; break; }
            case E_ACQ: reqs[e.a].acq = e.seq; pending.erase(e.tid); break;
            case sim::EV_SLEEP: {   // an implementation that waits by sleeping / backing off inside lock*() "has started waiting" just as well
                auto it = pending.find(e.tid);
                if (it != pending.end() && it->second > 0 && it->second < TAG_BARRIER) { reqs[it->second].parks.push_back(e.seq); g_extra["probe_request_slept_inside_lock"]++; }
                break;
            }
            case E_REL_RET: reqs[e.a].rel_ret = e.seq; break;
            case sim::EV_PARK:
            case sim::EV_FUTEX_WAIT:   // an implementation that blocks through std::atomic::wait / a semaphore parks here
                if (e.a > 0 && e.a < TAG_BARRIER) reqs[e.a].parks.push_back(e.seq);
                break;
        }
    }
    std::vector<Req*> v;
    for (auto& kv : reqs) v.push_back(&kv.second);
    if (v.size() > 3000) {   // marathon runs: tens of thousands of requests; only the scheduler-level oracles (deadlock, idle probe, overlap) apply
        g_extra["histories_too_long_for_pairwise_rules"]++;
        return;
    }

    // probes
    for (auto* r : v)
        if (!r->parks.empty()) g_extra[r->w ? "probe_write_request_parked" : "probe_read_request_parked"]++;
    // slow waker window: a thread woken by broadcast at s resumes (E_ACQ) at s2; some other thread's unlock returned in between
    for (size_t i = 0; i < evs.size(); i++) {
        if (evs[i].kind != sim::EV_WAKE || evs[i].b != 0) continue;
        int woken = evs[i].a;
        bool other_released = false;
        for (size_t k = i + 1; k < evs.size(); k++) {
            if (evs[k].tid == woken && evs[k].kind == E_ACQ) { if (other_released) g_extra["probe_unlock_returned_while_admitted_waiter_not_resumed"]++; break; }
            if (evs[k].tid == woken && evs[k].kind == sim::EV_PARK) break;  // was not admitted, went back to sleep
            if (evs[k].tid != woken && evs[k].kind == E_REL_RET) other_released = true;
        }
    }

    // C03: FIFO.  A parked before B was issued, not both reads  =>  if B acquired then A acquired earlier.
    uint64_t pairs = 0;
    for (auto* a : v) {
        if (a->parks.empty()) continue;
        for (auto* b : v) {
            if (a == b || a->res != b->res || b->issue < 0 || a->parks[0] > b->issue) continue;
            if (!a->w && !b->w) continue;
            pairs++;
            if (b->acq >= 0 && (a->acq < 0 || a->acq > b->acq)) {
                char d[200];
                snprintf(d, sizeof d, "request %d (%s, parked at #%lld) was overtaken by request %d (%s, issued at #%lld, granted at #%lld; earlier one granted at #%lld)", a->rid,
                         a->w ? "write" : "read", (long long)a->parks[0], b->rid, b->w ? "write" : "read", (long long)b->issue, (long long)b->acq, (long long)a->acq);
                sim::violation("fifo-order", d);
            }
        }
    }
    g_extra["c03_ordered_pairs_checked"] += pairs;

    // C12(a): a read request parks only if a write request is outstanding somewhere in [issue(R), park(R)]
    for (auto* r : v) {
        if (r->w) continue;
        for (int64_t p : r->parks) {
            g_extra["c12_parked_reads_checked"]++;
            bool writer = false;
            for (auto* w : v)
                if (w->w && w->res == r->res && w->issue >= 0 && w->issue < p && (w->rel_ret < 0 || w->rel_ret > r->issue)) writer = true;
            if (!writer) {
                char d[160];
                snprintf(d, sizeof d, "read request %d (issued #%lld) parked at #%lld although no write request was active or waiting", r->rid, (long long)r->issue, (long long)p);
                sim::violation("reader-parked-without-writer", d);
            }
        }
    }
}

// ---- scenarios --------------------------------------------------------------------------------------------------------
void idle_probe(Resource& res, Monitor& mon, int base, int residx = 0) {
    // C02 oracle 2: after all locks have been released the Resource grants the next requests without waiting.
    // The controller is the only thread left, so a park here is a scheduler deadlock, classified by the tag.
    section(res, mon, base + 1, true, false, 0, nullptr, nullptr, residx);
    sim::set_tag(base + 2); sim::ev(E_ISSUE, base + 2, residx << 1); res.lockRead(); sim::ev(E_ACQ, base + 2, 0);
    sim::set_tag(base + 3); sim::ev(E_ISSUE, base + 3, residx << 1); res.lockRead(); sim::ev(E_ACQ, base + 3, 0);
    sim::set_tag(0);
    res.unlockRead(); sim::ev(E_REL_RET, base + 2, 0);
    res.unlockRead(); sim::ev(E_REL_RET, base + 3, 0);
}
constexpr int IDLE_BASE = 900000;

void run_random(const Json& prog) {
    auto res = std::make_unique<Resource>();
    auto resB = std::make_unique<Resource>();
    Monitor mon, monB;
    const Json& th = prog.at("threads");
    std::vector<std::thread> ts;
    for (size_t t = 0; t < th.size(); t++) {
        ts.emplace_back([&, t] {
            const Json& secs = th[t];
            for (size_t s = 0; s < secs.size(); s++) {
                const Json& sc = secs[s];
                for (int i = 0; i < (int)sc.get("pre", 0); i++) sim::yield();
                Inner in{resB.get(), &monB, sc.get("iw", 0) != 0, sc.get("ig", 0) != 0, (int)sc.get("iy", 0)};
                bool has_inner = sc.get("inner", 0) != 0;
                if (sc.get("onB", 0))   // a section on the second resource alone
                    section(*resB, monB, (int)(t + 1) * 100 + (int)s + 1, sc.get("w", 0) != 0, sc.get("g", 0) != 0, (int)sc.get("y", 0), nullptr, nullptr, 1);
                else
                    section(*res, mon, (int)(t + 1) * 100 + (int)s + 1, sc.get("w", 0) != 0, sc.get("g", 0) != 0, (int)sc.get("y", 0), nullptr, has_inner ? &in : nullptr, 0, sc.get("x", 0) != 0);
            }
        });
    }
    for (auto& t : ts) t.join();
    idle_probe(*res, mon, IDLE_BASE);
    if (prog.get("two", 0)) idle_probe(*resB, monB, IDLE_BASE + 10, 1);
}

// C12(b): readers that queue up consecutively behind a writer are admitted together (they rendezvous inside).
void run_batch(const Json& prog) {
    auto res = std::make_unique<Resource>();
    Monitor mon;
    int k = (int)prog.get("k", 2), m = (int)prog.get("m", 0);
    bool writer_first = prog.get("writer_first", 1) != 0, mid_writer = prog.get("mid_writer", 0) != 0;
    int yields = (int)prog.get("y", 0);
    sim::Barrier b1(k), b2(std::max(1, m));
    std::vector<std::thread> ts;
    std::vector<int> tids;  // simulated thread ids of spawned threads, in spawn order
    auto parked = [&](int from, int n) {
        // all of the n threads spawned from index `from` are parked on a condition variable
        for (int i = from; i < from + n; i++) {
            if (i >= (int)tids.size()) return false;
            auto st = sim::thread_info(tids[i]).state;
            if (st != sim::T_BLK_COND && st != sim::T_BLK_FUTEX) return false;
        }
        return true;
    };
    auto spawn = [&](std::function<void()> f) {
        int id = sim::thread_count();
        ts.emplace_back(std::move(f));
        tids.push_back(id);
    };
    if (writer_first) {
        sim::set_tag(1); sim::ev(E_ISSUE, 1, 1);
        res->lockWrite();
        sim::ev(E_ACQ, 1, 1); sim::set_tag(0);
        mon.enter(true, 1);
    }
    for (int i = 0; i < k; i++) spawn([&, i] { section(*res, mon, 1000 + i, false, i % 2 == 0, yields, &b1); });
    if (writer_first) {
        sim::wait_until([&] { return parked(0, k); });  // so no write request can lie between them
        if (mid_writer) {
            spawn([&] { section(*res, mon, 5000, true, false, yields, nullptr); });
            sim::wait_until([&] { return parked(k, 1); });
            for (int i = 0; i < m; i++) spawn([&, i] { section(*res, mon, 6000 + i, false, i % 2 == 1, yields, &b2); });
            if (m > 0) sim::wait_until([&] { return parked(k + 1, m); });
        }
        mon.leave(true);
        sim::ev(E_REL_CALL, 1, 1);
        res->unlockWrite();
        sim::ev(E_REL_RET, 1, 1);
    }
    for (auto& t : ts) t.join();
    idle_probe(*res, mon, IDLE_BASE);
}

// Convoy: requests arrive one by one in a scripted order, each observed parked before the next is issued, so the arrival
// order is known exactly and long queues ([W][R][W][W]..., five and more entries, a queue head that has moved) are reached
// on purpose.  'R'/'W' = a request arrives and parks; '|' = the current holder(s) are released while later arrivals follow.
void run_convoy(const Json& prog) {
    auto res = std::make_unique<Resource>();
    Monitor mon;
    const std::string script = prog.gets("script", "RW");
    int yields = (int)prog.get("y", 0);
    bool gate_open = false;          // only read/written with the baton held
    std::vector<std::thread> ts;
    std::vector<int> tids;
    sim::set_tag(1); sim::ev(E_ISSUE, 1, 1);
    res->lockWrite();
    sim::ev(E_ACQ, 1, 1); sim::set_tag(0);
    mon.enter(true, 1);
    bool controller_holds = true;
    int n = 0;
    for (char c : script) {
        if (c == '|') {
            if (controller_holds) {
                mon.leave(true);
                sim::ev(E_REL_CALL, 1, 1);
                res->unlockWrite();
                sim::ev(E_REL_RET, 1, 1);
                controller_holds = false;   // whoever is admitted now stays inside (gate) while the next requests arrive
            }
            continue;
        }
        bool w = c == 'W';
        int rid = 100 + n;
        int id = sim::thread_count();
        bool admitted_already = !controller_holds && n == 0;
        ts.emplace_back([&, rid, w] { section(*res, mon, rid, w, rid % 2 == 0, yields, nullptr, nullptr, 0, false, &gate_open); });
        tids.push_back(id);
        n++;
        (void)admitted_already;
        // wait until this request is parked — or has entered and sits at the gate (possible after '|')
        sim::wait_until([&, id] {
            auto ti = sim::thread_info(id);
            return ti.state == sim::T_BLK_COND || ti.state == sim::T_BLK_FUTEX || (ti.state == sim::T_BLK_PRED && ti.tag == TAG_BARRIER) ||
                   (ti.state == sim::T_SLEEPING && ti.tag == rid);   // waits by sleeping inside lock*() (tag = its request id)
        });
    }
    if (controller_holds) {
        mon.leave(true);
        sim::ev(E_REL_CALL, 1, 1);
        res->unlockWrite();
        sim::ev(E_REL_RET, 1, 1);
    }
    gate_open = true;
    for (auto& t : ts) t.join();
    idle_probe(*res, mon, IDLE_BASE);
}

// Marathon: two writers take the lock in turns tens of thousands of times and each leaves only once the other one is parked
// again, so the Resource never goes idle and its ticket counters never reset: state that only breaks after N requests in ONE
// busy period (narrow counters) is reached on purpose.
void run_marathon(const Json& prog) {
    auto res = std::make_unique<Resource>();
    Monitor mon;
    int n = (int)prog.get("n", 33000);
    int tid[2] = {-1, -1};
    int done[2] = {0, 0};
    auto worker = [&](int me) {
        for (int i = 0; i < n; i++) {
            res->lockWrite();
            mon.enter(true, me + 1);
            if (i + 1 < n || me == 0) {
                // stay inside until the other writer is parked behind us (or has finished all its rounds)
                sim::wait_until([&, me] {
                    if (done[1 - me]) return true;
                    auto st = sim::thread_info(tid[1 - me]).state;
                    return st == sim::T_BLK_COND || st == sim::T_BLK_FUTEX;
                });
            }
            mon.leave(true);
            res->unlockWrite();
        }
        done[me] = 1;
    };
    tid[0] = sim::thread_count();
    std::thread a(worker, 0);
    tid[1] = sim::thread_count();
    std::thread b(worker, 1);
    a.join();
    b.join();
    idle_probe(*res, mon, IDLE_BASE);
}

std::string classify_deadlock(const Json& prog, const std::vector<sim::ThreadInfo>& ti) {
    if (prog.gets("kind", "random") == "marathon") return "lost-wakeup";
    bool batch = prog.gets("kind", "random") == "batch";
    if (batch) return "batch-deadlock";
    if (prog.gets("kind", "random") == "convoy") return "lost-wakeup";
    for (auto& t : ti)
        if ((t.state == sim::T_BLK_COND || t.state == sim::T_BLK_FUTEX) && t.tag > IDLE_BASE) return "idle-probe-park";
    return "lost-wakeup";
}

}  // namespace

// ------------------------------------------------------------------------------------------------ hx interface
namespace hx {
const char* NAME = "resource_sim";

std::map<std::string, uint64_t>& extra() { return g_extra; }

const char* event_name(int k) {
    switch (k) {
        case E_ISSUE: return "issue-lock";
        case E_ACQ: return "acquired";
        case E_REL_CALL: return "calling-unlock";
        case E_REL_RET: return "unlock-returned";
        case E_BARRIER: return "at-barrier";
    }
    return "?";
}

bool owns(const std::string& prop, const std::string& cls) {
    if (cls == "unexpected-exception") return prop != "C15";
    if (prop == "C01") return cls == "overlap" || cls == "tulz-assert";
    if (prop == "C02") return cls == "lost-wakeup" || cls == "idle-probe-park";
    if (prop == "C03") return cls == "fifo-order";
    if (prop == "C12") return cls == "reader-parked-without-writer" || cls == "batch-deadlock";
    if (prop == "C15") return cls.rfind("tsan:", 0) == 0;
    return false;
}

void generate(sim::Rng& g, const std::string& prop, const std::string& tier, Json& program, sim::Config& cfg) {
    bool thorough = tier == "thorough";
    program = Json::object();
    // two rare, expensive scenarios for state that only breaks at scale (a holder count or a ticket that is too narrow)
    bool crowd = (prop == "C01" || prop == "C12") && g.below(4000) == 0;
    bool marathon = (prop == "C02" || prop == "C01") && g.below(12000) == 0;
    if (crowd) {
        program.set("kind", "batch").set("k", 257 + (int)g.below(40)).set("writer_first", 1).set("mid_writer", 1).set("m", 0).set("y", 0);
        drv::draw_sched(g, cfg, false, 4000);
        cfg.step_cap = 200000;
        return;
    }
    if (marathon) {
        program.set("kind", "marathon").set("n", 33000 + (int)g.below(2000));
        drv::draw_sched(g, cfg, false, 400000);
        cfg.strategy = sim::STICKY;   // (PCT / starvation windows are meaningless over half a million steps)
        cfg.sticky_p = 0.8;
        cfg.spurious_rate = 0;
        cfg.step_cap = 4000000;
        return;
    }
    bool batch = (prop == "C12") && g.below(2) == 0;
    bool convoy = !batch && (prop == "C03" || prop == "C12" || prop == "C01") && g.below(prop == "C03" ? 3 : 8) == 0;
    int est = 100;
    if (convoy) {
        program.set("kind", "convoy");
        // deep convoys (C03): 10-16 arrivals, mostly writers, so the wait queue holds 8-15 entries when the holder leaves, and the
        // release comes late, with one to three arrivals after it: state that only exists behind a long queue is reached on purpose
        bool deep = prop == "C03" && g.below(5) == 0;
        int len = deep ? g.range(10, thorough ? 16 : 14) : g.range(2, thorough ? 10 : 8);
        double pw = deep ? 0.85 : prop == "C12" ? 0.15 : 0.5;
        std::string sc;
        int bars = 0;
        for (int i = 0; i < len; i++) {
            sc += g.chance(pw) ? 'W' : 'R';
            if (deep) { if (bars < 1 && i + 1 < len && i + 4 >= len && (i + 2 == len || g.below(2) == 0)) { sc += '|'; bars++; } }
            else if (bars < 1 && i + 1 < len && g.below(4) == 0) { sc += '|'; bars++; }
        }
        if (deep) program.set("deep", 1);
        program.set("script", sc).set("y", g.range(0, 1));
        est = 40 * len;
    } else if (batch) {
        program.set("kind", "batch");
        int k = g.range(2, thorough ? 7 : 6);
        bool wf = g.below(5) != 0;
        bool mid = wf && g.below(2) == 0;
        program.set("k", k).set("writer_first", (int)wf).set("mid_writer", (int)mid).set("m", mid ? g.range(0, 3) : 0).set("y", g.range(0, 2));
        est = 30 * k;
    } else {
        program.set("kind", "random");
        int nt, maxsec;
        static const double pws_all[] = {0.0, 0.2, 0.5, 0.8};
        double pw;
        if (prop == "C03") { nt = g.range(3, thorough ? 7 : 6); maxsec = 2; pw = pws_all[1 + g.below(3)]; }
        else if (prop == "C12") { nt = g.range(2, thorough ? 6 : 5); maxsec = 3; pw = pws_all[g.below(3)]; }
        else { nt = g.range(2, thorough ? 6 : 5); maxsec = thorough ? 5 : 3; pw = pws_all[1 + g.below(3)]; }
        Json th = Json::array();
        int total = 0;
        bool churn = prop != "C12" && g.below(10) == 0;   // few threads, 8-12 short write-heavy sections each: dozens of queue entries
        if (churn) { nt = g.range(3, 4); maxsec = 12; pw = 0.7; }   // pass through one Resource (state that only breaks after N entries)
        bool two = !churn && g.below(4) == 0;   // a second Resource: sections on it alone or nested inside a section of the first
        program.set("two", (int)two);
        for (int t = 0; t < nt; t++) {
            Json secs = Json::array();
            int ns = churn ? g.range(8, maxsec) : g.range(1, maxsec);
            for (int s = 0; s < ns; s++) {
                Json sc = Json::object();
                sc.set("w", (int)g.chance(pw)).set("g", (int)g.below(2)).set("y", churn ? (int)g.below(2) : g.range(0, 2)).set("pre", churn ? 0 : g.range(0, 2));
                if (sc.get("g", 0) && g.below(6) == 0) sc.set("x", 1);   // leave the guarded section by an exception
                if (two) {
                    int r = (int)g.below(10);
                    if (r < 4) sc.set("inner", 1).set("iw", (int)g.chance(pw)).set("ig", (int)g.below(2)).set("iy", g.range(0, 1));
                    else if (r < 6) sc.set("onB", 1);
                }
                secs.push(sc);
                total++;
            }
            th.push(secs);
        }
        program.set("threads", th);
        est = 12 * total + 10 * nt;
    }
    drv::draw_sched(g, cfg, true, est);
    { static const int speed[] = {2, 2, 2, 0, 100, 4000}; cfg.clock_step_max_ms = speed[g.below(6)]; }  // slow machines: seconds pass between two steps
    if (prop == "C02" && g.below(2) == 0) cfg.spurious_rate = 0;  // a spurious wake-up can mask a lost notification: keep a clean half
    cfg.step_cap = 20000;
}

void execute(const Json& program, const sim::Config& cfg, const std::string& prop) {
    sim::set_deadlock_classifier([&](const std::vector<sim::ThreadInfo>& ti) { return classify_deadlock(program, ti); });
    bool batch = program.gets("kind", "random") == "batch";
    sim::run(cfg, [&] {
        try {
            if (batch) run_batch(program);
            else if (program.gets("kind", "random") == "convoy") run_convoy(program);
            else if (program.gets("kind", "random") == "marathon") run_marathon(program);
            else run_random(program);
        } catch (const std::exception& e) {  // valid use of the API must not throw: an escaping exception is an outcome to report, not a harness error
            sim::violation("unexpected-exception", std::string("exception escaped from tulz under valid use: ") + e.what());
        }
    });
    analyse(prop);
    g_extra[batch ? (program.get("k", 0) > 200 ? "runs_crowd_scenario_over_256_readers" : "runs_batch_scenario")
            : program.gets("kind", "random") == "convoy" ? (program.get("deep", 0) ? "runs_deep_convoy_scenario" : "runs_convoy_scenario") : program.gets("kind", "random") == "marathon" ? "runs_marathon_scenario" : "runs_random_program"]++;
}

std::string describe(const Json& p) {
    if (p.gets("kind", "random") == "marathon") return "marathon: two writers alternate " + std::to_string(p.get("n", 0)) + " times each without the Resource ever going idle";
    if (p.gets("kind", "random") == "convoy") return "convoy behind a writer, arrivals in order: " + p.gets("script", "") + (p.get("y", 0) ? " (y1)" : "");
    if (p.gets("kind", "random") == "batch") {
        char b[160];
        snprintf(b, sizeof b, "batch: %s%d readers rendezvous%s%s", p.get("writer_first", 1) ? "controller holds write lock, " : "no writer, ", (int)p.get("k", 2),
                 p.get("mid_writer", 0) ? ", then a queued writer" : "", p.get("m", 0) ? (", then " + std::to_string(p.get("m", 0)) + " more readers rendezvous").c_str() : "");
        return b;
    }
    std::string s;
    const Json& th = p.at("threads");
    for (size_t t = 0; t < th.size(); t++) {
        s += (t ? " | T" : "T") + std::to_string(t + 1) + ":";
        for (auto& sc : th[t].a) {
            s += ' ';
            s += sc.get("w", 0) ? 'W' : 'R';
            if (sc.get("g", 0)) s += 'g';
            if (sc.get("y", 0)) s += "y" + std::to_string(sc.get("y", 0));
            if (sc.get("x", 0)) s += "!";
            if (sc.get("onB", 0)) s += "@B";
            if (sc.get("inner", 0)) s += std::string("{B:") + (sc.get("iw", 0) ? "W" : "R") + (sc.get("ig", 0) ? "g" : "") + "}";
        }
    }
    return s;
}

std::vector<Json> shrink(const Json& p) {
    std::vector<Json> out;
    if (p.gets("kind", "random") == "marathon") {
        int64_t n = p.get("n", 0);
        for (int64_t m : {n / 2, n - 1000, n - 100}) if (m > 10 && m < n) { Json c = p; c.set("n", m); out.push_back(c); }
        return out;
    }
    if (p.gets("kind", "random") == "convoy") {
        std::string sc = p.gets("script", "");
        for (size_t i = 0; i < sc.size(); i++) { Json c = p; std::string t = sc; t.erase(i, 1); if (!t.empty()) { c.set("script", t); out.push_back(c); } }
        for (size_t i = 0; i < sc.size(); i++) if (sc[i] == 'W') { Json c = p; std::string t = sc; t[i] = 'R'; c.set("script", t); out.push_back(c); }
        if (p.get("y", 0)) { Json c = p; c.set("y", 0); out.push_back(c); }
        return out;
    }
    if (p.gets("kind", "random") == "batch") {
        auto with = [&](const char* k, int64_t v) { Json c = p; c.set(k, (int64_t)v); out.push_back(c); };
        if (p.get("m", 0) > 0) with("m", p.get("m", 0) - 1);
        if (p.get("mid_writer", 0)) { Json c = p; c.set("mid_writer", 0).set("m", 0); out.push_back(c); }
        if (p.get("k", 2) > 2) with("k", p.get("k", 2) - 1);
        if (p.get("y", 0) > 0) with("y", 0);
        return out;
    }
    const Json& th = p.at("threads");
    // drop a thread
    if (th.size() > 1)
        for (size_t t = 0; t < th.size(); t++) {
            Json c = p; c.at("threads").a.erase(c.at("threads").a.begin() + t); out.push_back(c);
        }
    // drop a section
    for (size_t t = 0; t < th.size(); t++)
        if (th[t].size() > 1)
            for (size_t s = 0; s < th[t].size(); s++) {
                Json c = p; auto& v = c.at("threads")[t].a; v.erase(v.begin() + s); out.push_back(c);
            }
    // weaken a section
    for (size_t t = 0; t < th.size(); t++)
        for (size_t s = 0; s < th[t].size(); s++) {
            const Json& sc = th[t][s];
            auto with = [&](const char* k, int v) { Json c = p; c.at("threads")[t][s].set(k, v); out.push_back(c); };
            if (sc.get("x", 0)) with("x", 0);
            if (sc.get("inner", 0)) with("inner", 0);
            if (sc.get("onB", 0)) with("onB", 0);
            if (sc.get("iw", 0) && sc.get("inner", 0)) with("iw", 0);
            if (sc.get("y", 0)) with("y", 0);
            if (sc.get("pre", 0)) with("pre", 0);
            if (sc.get("g", 0)) with("g", 0);
            if (sc.get("w", 0)) with("w", 0);
        }
    return out;
}
}  // namespace hx
