// pool_sim — tulz::ThreadPool under the deterministic scheduler.
// Serves C07 (at most once / owned until destroyed once), C08 (stop() terminates, restartable, thread bound), C15 (T-flavour).
#include <tulz/threading/Thread.h>
#include <tulz/threading/ThreadPool.h>

#include <memory>
#include <system_error>

#include "common.h"

using tulz::Runnable;
using tulz::ThreadPool;

namespace {
enum : int {
    E_SUBMIT = 100,   // a = task id, b = kind
    E_BEGIN = 101,    // a = task id
    E_END = 102,
    E_DTOR = 103,
    E_OP_CALL = 104,  // a = op index, b = op code
    E_OP_RET = 105,
    E_OBS = 106,      // a = getThreadCount(), b = getActiveThreadCount()
};
enum : int { OP_START = 1, OP_CLEAR, OP_STOP, OP_UPDATE, OP_GET, OP_YIELD, OP_WAIT, OP_FINAL_STOP, OP_PROBE_START, OP_PROBE_STOP };
constexpr int TAG_WAIT = 5000, TAG_STOP = 6000, TAG_PROBE_WAIT = 7000, TAG_OP = 1000;

struct TaskState {
    int kind = 0;
    int64_t submit = -1, begin = -1, end = -1, dtor = -1;
    int runs = 0, dtors = 0, live = 0;
    int runner = -1;
    int epoch = 0;          // number of stop() calls issued before submission
    bool must_run = false;
    bool exempt = false;    // start() threw (injected pthread_create failure): who owns the task then is unspecified, so it is
                            // neither required to run nor to be destroyed; it still must not run twice or be freed while running
};

struct Registry {  // harness-side monitor; every access inside sim::Untracked
    std::vector<TaskState> tasks;
    int running = 0;
};
Registry* R = nullptr;
std::string g_prop;
std::map<std::string, uint64_t> g_extra;

void task_begin(int id) {
    sim::ev(E_BEGIN, id, sim::self());
    sim::Untracked u;
    auto& t = R->tasks[id];
    t.begin = sim::seqno();
    t.runner = sim::self();
    R->running++;
    if (++t.runs > 1) sim::violation("task-ran-twice", "task " + std::to_string(id) + " executed more than once");
    if (t.dtors > 0 || (t.kind == 1 && t.live <= 0)) sim::violation("task-run-after-destroy", "task " + std::to_string(id) + " executed after it was destroyed");
}
void task_end(int id) {
    sim::ev(E_END, id, 0);
    sim::Untracked u;
    auto& t = R->tasks[id];
    t.end = sim::seqno();
    R->running--;
    if (t.dtors > 0 || (t.kind == 1 && t.live <= 0)) sim::violation("task-destroyed-while-running", "task " + std::to_string(id) + " was destroyed during its own execution");
}

struct Task : Runnable {
    int id, yields;
    Task(int i, int y) : id(i), yields(y) {}
    void run() override {
        task_begin(id);
        for (int i = 0; i < yields; i++) sim::yield();
        task_end(id);
    }
    ~Task() override {
        sim::ev(E_DTOR, id, 0);
        sim::Untracked u;
        auto& t = R->tasks[id];
        t.dtor = sim::seqno();
        if (++t.dtors > 1) sim::violation("task-destroyed-twice", "task " + std::to_string(id) + " destroyed more than once");
    }
};

struct Functor {  // callable handed to the template start(); copies are tracked
    int id, yields;
    Functor(int i, int y) : id(i), yields(y) { sim::Untracked u; R->tasks[id].live++; }
    Functor(const Functor& o) : id(o.id), yields(o.yields) { sim::Untracked u; R->tasks[id].live++; }
    ~Functor() {
        sim::Untracked u;
        auto& t = R->tasks[id];
        if (--t.live == 0) { t.dtor = sim::seqno(); }
        if (t.live < 0) sim::violation("task-destroyed-twice", "callable of task " + std::to_string(id) + " destroyed more often than constructed");
    }
    void operator()(int& counter) {
        task_begin(id);
        for (int i = 0; i < yields; i++) sim::yield();
        {
            sim::Untracked u;
            counter++;
        }
        task_end(id);
    }
};

struct Ctx {
    const Json& prog;
    std::unique_ptr<ThreadPool> pool;
    int maxThreads, expiry;
    int stops_issued = 0;
    int cleared_upto = 0;   // tasks with id < cleared_upto are not must-run
    std::vector<int> counters;  // lvalue arguments of callable tasks (owner keeps them alive)
    explicit Ctx(const Json& p) : prog(p) {}
};

void observe(Ctx& c, const char* where) {
    int n = c.pool->getThreadCount();
    int a = c.pool->getActiveThreadCount();
    sim::ev(E_OBS, n, a);
    if (c.maxThreads >= 0 && n > c.maxThreads)
        sim::violation("too-many-threads", std::string(where) + ": getThreadCount()=" + std::to_string(n) + " exceeds the maximum " + std::to_string(c.maxThreads));
}

int submit(Ctx& c, int kind, int yields) {
    int id;
    {
        sim::Untracked u;
        id = (int)R->tasks.size();
        R->tasks.emplace_back();
        auto& t = R->tasks[id];
        t.kind = kind;
        t.submit = sim::seqno();
        t.epoch = c.stops_issued;
    }
    sim::ev(E_SUBMIT, id, kind);
    try {
        if (kind == 0) {
            c.pool->start(new Task(id, yields));
        } else {
            Functor f(id, yields);
            c.pool->start(f, c.counters[id]);
        }
    } catch (const std::system_error&) {
        // injected fault: thread creation failed inside start().  The pool must stay usable (later start()/stop() must not
        // hang or touch freed memory); nothing is assumed about this task, nor that unstarted earlier tasks get a wake-up.
        sim::Untracked u;
        R->tasks[id].exempt = true;
        c.cleared_upto = (int)R->tasks.size();
        g_extra["start_threw_system_error"]++;
        return -1 - id;
    }
    return id;
}

void wait_tasks(Ctx& c, int from, int to, int tag) {
    sim::set_tag(tag);
    sim::wait_until([&, from, to] {
        for (int i = from; i < to; i++)
            if (R->tasks[i].end < 0 && !R->tasks[i].exempt) return false;
        return true;
    });
    sim::set_tag(0);
}

void after_stop(Ctx& c, int64_t stop_call_seq, const char* where) {
    // C08: quiescent pool
    int n = c.pool->getThreadCount();
    if (n != 0) sim::violation("threads-after-stop", std::string(where) + ": getThreadCount()=" + std::to_string(n) + " after stop() returned");
    sim::Untracked u;
    if (R->running != 0) sim::violation("task-running-after-stop", std::string(where) + ": a task is still between begin and end after stop() returned");
    if (g_prop == "C07") return;  // C07 judges destruction at the very end (task-leaked), whatever stop() chooses to do when
    for (size_t i = 0; i < R->tasks.size(); i++) {
        auto& t = R->tasks[i];
        if (t.submit >= stop_call_seq || t.exempt) continue;
        bool destroyed = t.kind == 0 ? t.dtors == 1 : t.live == 0;
        if (!destroyed)
            sim::violation("task-not-destroyed-by-stop", std::string(where) + ": task " + std::to_string(i) + " (submitted before stop) is still alive after stop() returned; ran=" + std::to_string(t.runs));
    }
}

void body(const Json& prog) {
    Ctx c(prog);
    c.maxThreads = (int)prog.get("max", 2);
    c.expiry = (int)prog.get("expiry", -1);
    const Json& ops = prog.at("ops");
    c.counters.assign(ops.size() + 8, 0);
    c.pool = std::make_unique<ThreadPool>();
    c.pool->setMaxThreadCount(c.maxThreads);
    c.pool->setExpiryTimeout(c.expiry);
    int opi = 0;
    for (auto& op : ops.a) {
        const std::string& o = op.at("op").s;
        sim::set_tag(TAG_OP + opi);
        if (o == "start") {
            sim::ev(E_OP_CALL, opi, OP_START);
            submit(c, (int)op.get("kind", 0), (int)op.get("y", 0));
            sim::ev(E_OP_RET, opi, OP_START);
            observe(c, "after start()");
        } else if (o == "clear") {
            sim::ev(E_OP_CALL, opi, OP_CLEAR);
            { sim::Untracked u; c.cleared_upto = (int)R->tasks.size(); }
            c.pool->clear();
            sim::ev(E_OP_RET, opi, OP_CLEAR);
        } else if (o == "stop") {
            int64_t s = sim::seqno();
            sim::ev(E_OP_CALL, opi, OP_STOP);
            { sim::Untracked u; c.cleared_upto = (int)R->tasks.size(); c.stops_issued++; }
            sim::set_tag(TAG_STOP);
            c.pool->stop();
            sim::set_tag(TAG_OP + opi);
            sim::ev(E_OP_RET, opi, OP_STOP);
            after_stop(c, s, "stop()");
        } else if (o == "update") {
            sim::ev(E_OP_CALL, opi, OP_UPDATE);
            c.pool->update();
            sim::ev(E_OP_RET, opi, OP_UPDATE);
            observe(c, "after update()");
        } else if (o == "get") {
            observe(c, "getter");
            (void)c.pool->getMaxThreadCount();
            (void)c.pool->getExpiryTimeout();
        } else if (o == "yield") {
            for (int i = 0; i < (int)op.get("n", 1); i++) sim::yield();
        } else if (o == "wait") {
            if (c.expiry < 0) {
                int to; { sim::Untracked u; to = (int)R->tasks.size(); }
                wait_tasks(c, c.cleared_upto, to, TAG_WAIT);
            }
        }
        opi++;
    }
    // every task submitted after the last clear()/stop() must run exactly once (non-expiring workers only: C07's scope)
    int ntasks; { sim::Untracked u; ntasks = (int)R->tasks.size(); }
    if (c.expiry < 0) {
        { sim::Untracked u; for (int i = c.cleared_upto; i < ntasks; i++) R->tasks[i].must_run = !R->tasks[i].exempt; }
        wait_tasks(c, c.cleared_upto, ntasks, TAG_WAIT);
    }
    {
        int64_t s = sim::seqno();
        sim::ev(E_OP_CALL, opi, OP_FINAL_STOP);
        { sim::Untracked u; c.stops_issued++; }
        sim::set_tag(TAG_STOP);
        c.pool->stop();
        sim::set_tag(0);
        sim::ev(E_OP_RET, opi, OP_FINAL_STOP);
        after_stop(c, s, "final stop()");
    }
    // restart probe: a later start() works again and a second stop() returns
    {
        sim::ev(E_OP_CALL, opi + 1, OP_PROBE_START);
        int id = -1;
        for (int attempt = 0; attempt < 6 && id < 0; attempt++) id = submit(c, 0, 1);   // (an injected creation failure may hit the probe too)
        sim::ev(E_OP_RET, opi + 1, OP_PROBE_START);
        observe(c, "after restart");
        if (id >= 0) wait_tasks(c, id, id + 1, TAG_PROBE_WAIT);
        int64_t s = sim::seqno();
        sim::ev(E_OP_CALL, opi + 2, OP_PROBE_STOP);
        { sim::Untracked u; c.stops_issued++; }
        sim::set_tag(TAG_STOP);
        c.pool->stop();
        sim::set_tag(0);
        sim::ev(E_OP_RET, opi + 2, OP_PROBE_STOP);
        after_stop(c, s, "stop() after restart");
    }
    c.pool.reset();
}

// ---- history analysis (after the simulation) ------------------------------------------------------------------------
void analyse(const Json& prog, const Registry& reg) {
    int maxThreads = (int)prog.get("max", 2);
    auto& evs = sim::events();
    // stop() call/return sequence numbers
    std::vector<std::pair<int64_t, int64_t>> stops;
    int64_t pending = -1;
    for (auto& e : evs) {
        if (e.kind == E_OP_CALL && (e.b == OP_STOP || e.b == OP_FINAL_STOP || e.b == OP_PROBE_STOP)) pending = e.seq;
        if (e.kind == E_OP_RET && (e.b == OP_STOP || e.b == OP_FINAL_STOP || e.b == OP_PROBE_STOP)) { stops.push_back({pending, e.seq}); pending = -1; }
    }
    for (size_t i = 0; i < reg.tasks.size(); i++) {
        auto& t = reg.tasks[i];
        std::string id = "task " + std::to_string(i);
        if (t.runs > 1) sim::violation("task-ran-twice", id + " executed more than once");
        bool destroyed_once = t.exempt || (t.kind == 0 ? t.dtors == 1 : t.live == 0);
        if (!destroyed_once) sim::violation("task-leaked", id + " not destroyed exactly once by the end (dtors=" + std::to_string(t.dtors) + " live copies=" + std::to_string(t.live) + ")");
        if (t.runs == 1 && t.dtor >= 0 && t.dtor < t.end) sim::violation("task-destroyed-while-running", id + " destroyed before its execution ended");
        if (t.must_run && t.runs != 1) sim::violation("task-lost", id + " was never executed although the pool was neither stopped nor cleared after its submission");
        // no task starts running after a stop() issued after its submission has returned
        for (auto& s : stops)
            if (t.submit < s.first && t.begin > s.second) sim::violation("task-began-after-stop", id + " began at #" + std::to_string(t.begin) + " after stop() had returned at #" + std::to_string(s.second));
    }
    // single worker: execution order equals submission order
    if (maxThreads == 1) {
        int64_t last_begin = -1;
        int last = -1;
        for (size_t i = 0; i < reg.tasks.size(); i++) {
            auto& t = reg.tasks[i];
            if (t.runs == 0) continue;
            if (t.begin < last_begin)
                sim::violation("order-violated", "single worker: task " + std::to_string(i) + " ran before task " + std::to_string(last) + " although it was submitted later");
            last_begin = t.begin;
            last = (int)i;
        }
    }
    // worker threads alive at the same time (created and not yet exited) <= max.  (Distinct threads over time may exceed
    // the maximum legitimately: an expired worker reaped by update() is replaced by a new one.)
    {
        int alive = 0;
        for (auto& e : evs) {
            if (e.kind == sim::EV_CREATE) {
                alive++;
                if (maxThreads >= 0 && alive > maxThreads)
                    sim::violation("too-many-threads", std::to_string(alive) + " worker threads alive at #" + std::to_string(e.seq) + "; maximum is " + std::to_string(maxThreads));
            }
            if (e.kind == sim::EV_EXIT && e.tid != 0) alive--;
        }
    }
    // probes
    uint64_t ran = 0, unrun = 0;
    for (auto& t : reg.tasks) { ran += t.runs; unrun += t.runs == 0; }
    g_extra["tasks_submitted"] += reg.tasks.size();
    g_extra["tasks_executed"] += ran;
    g_extra["tasks_destroyed_unrun"] += unrun;
    g_extra["stop_calls"] += stops.size();
    // probe: stop() called while some worker was parked / while a task was running
    for (auto& s : stops) {
        bool running = false;
        for (auto& t : reg.tasks)
            if (t.begin >= 0 && t.begin < s.first && t.end > s.first) running = true;
        if (running) g_extra["probe_stop_called_while_task_running"]++;
    }
}

}  // namespace

namespace hx {
const char* NAME = "pool_sim";
std::map<std::string, uint64_t>& extra() { return g_extra; }
const char* event_name(int k) {
    switch (k) {
        case E_SUBMIT: return "submit";
        case E_BEGIN: return "task-begin";
        case E_END: return "task-end";
        case E_DTOR: return "task-dtor";
        case E_OP_CALL: return "op-call";
        case E_OP_RET: return "op-ret";
        case E_OBS: return "observe(threads,active)";
    }
    return "?";
}

bool owns(const std::string& prop, const std::string& c) {
    static const std::set<std::string> c07 = {"task-ran-twice", "task-run-after-destroy", "task-destroyed-while-running", "task-destroyed-twice", "task-leaked", "task-lost",
                                              "task-began-after-stop", "order-violated", "pool-deadlock", "terminate", "unexpected-exception"};
    static const std::set<std::string> c08 = {"stop-hang", "threads-after-stop", "task-running-after-stop", "task-not-destroyed-by-stop", "restart-failed", "too-many-threads",
                                              "pool-deadlock", "terminate", "unexpected-exception"};
    if (prop == "C07") return c07.count(c) > 0 || c.rfind("asan:", 0) == 0;
    if (prop == "C08") return c08.count(c) > 0 || c.rfind("asan:", 0) == 0;
    if (prop == "C15") return c.rfind("tsan:", 0) == 0;
    return false;
}

void generate(sim::Rng& g, const std::string& prop, const std::string& tier, Json& program, sim::Config& cfg) {
    bool thorough = tier == "thorough";
    program = Json::object();
    int maxT = g.range(1, 4);
    int expiry = -1;
    if (prop != "C07" && g.below(2) == 0) { static const int ex[] = {0, 3, 20, 200}; expiry = ex[g.below(4)]; }
    program.set("max", maxT).set("expiry", expiry);
    Json ops = Json::array();
    int n = g.range(1, thorough ? 12 : 7);
    int starts = 0;
    for (int i = 0; i < n; i++) {
        Json op = Json::object();
        int r = (int)g.below(100);
        if (r < 50 || i == 0) { op.set("op", "start").set("kind", (int)(g.below(3) == 0)).set("y", g.range(0, 2)); starts++; }
        else if (r < 58) op.set("op", "clear");
        else if (r < 68) op.set("op", "stop");
        else if (r < 76) op.set("op", "update");
        else if (r < 84) op.set("op", "get");
        else if (r < 94) op.set("op", "yield").set("n", g.range(1, 3));
        else op.set("op", "wait");
        ops.push(op);
    }
    program.set("ops", ops);
    drv::draw_sched(g, cfg, true, 40 + 25 * starts);
    if (expiry >= 0 && g.below(2) == 0) {
        cfg.clock_jump_rate = 0.02;
        cfg.clock_jump_ms = expiry + 1 + (int)g.below(50);
    }
    if (prop != "C15" && g.below(6) == 0) cfg.create_fail_rate = 0.25;   // thread creation fails now and then inside start()
    cfg.step_cap = 30000;
}

void execute(const Json& program, const sim::Config& cfg, const std::string& prop) {
    g_prop = prop;
    sim::set_deadlock_classifier([&](const std::vector<sim::ThreadInfo>& ti) -> std::string {
        int tag = ti.empty() ? 0 : ti[0].tag;
        if (tag == TAG_STOP) return "stop-hang";
        if (tag == TAG_WAIT) return "task-lost";
        if (tag == TAG_PROBE_WAIT) return "restart-failed";
        return "pool-deadlock";
    });
    Registry reg;
    R = &reg;
    sim::run(cfg, [&] {
        try {
            body(program);
        } catch (const std::exception& e) {  // valid use of the API must not throw: an escaping exception is an outcome to report, not a harness error
            sim::violation("unexpected-exception", std::string("exception escaped from tulz under valid use: ") + e.what());
        }
    });
    analyse(program, reg);
    R = nullptr;
    g_extra[program.get("expiry", -1) < 0 ? "runs_non_expiring" : "runs_expiring"]++;
}

std::string describe(const Json& p) {
    std::string s = "max=" + std::to_string(p.get("max", 2)) + " expiry=" + std::to_string(p.get("expiry", -1)) + ":";
    for (auto& op : p.at("ops").a) {
        const std::string& o = op.at("op").s;
        s += ' ';
        if (o == "start") s += std::string(op.get("kind", 0) ? "startF" : "start") + (op.get("y", 0) ? "y" + std::to_string(op.get("y", 0)) : "");
        else if (o == "yield") s += "yield" + std::to_string(op.get("n", 1));
        else s += o;
    }
    return s + " [wait] stop start wait stop";
}

std::vector<Json> shrink(const Json& p) {
    std::vector<Json> out;
    const Json& ops = p.at("ops");
    for (size_t i = 0; i < ops.size(); i++) {
        Json c = p; c.at("ops").a.erase(c.at("ops").a.begin() + i); out.push_back(c);
    }
    for (size_t i = 0; i < ops.size(); i++) {
        if (ops[i].at("op").s == "start") {
            if (ops[i].get("y", 0)) { Json c = p; c.at("ops")[i].set("y", 0); out.push_back(c); }
            if (ops[i].get("kind", 0)) { Json c = p; c.at("ops")[i].set("kind", 0); out.push_back(c); }
        }
        if (ops[i].at("op").s == "yield" && ops[i].get("n", 1) > 1) { Json c = p; c.at("ops")[i].set("n", 1); out.push_back(c); }
    }
    if (p.get("max", 2) > 1) { Json c = p; c.set("max", p.get("max", 2) - 1); out.push_back(c); }
    if (p.get("expiry", -1) >= 0) { Json c = p; c.set("expiry", -1); out.push_back(c); }
    return out;
}
}  // namespace hx
