// thread_sim — tulz::Thread under the deterministic scheduler.  Serves C20.
// The launch happens in a frame that dies; the simulator decides how late the new thread first runs.
#include <tulz/threading/Thread.h>

#include <array>
#include <memory>
#include <set>
#include <string>
#include <system_error>

#include "common.h"

namespace {
enum : int {
    E_LAUNCH_CALL = 100,
    E_LAUNCH_RET = 101,
    E_CALL_BEGIN = 102,   // a = instance serial, b = simulated thread
    E_CALL_END = 103,
    E_POLL = 104,         // a = isFinished()
    E_JOIN_CALL = 105,
    E_JOIN_RET = 106,
    E_RUNNABLE_DTOR = 107,
    E_SCRIBBLE = 108,
};

struct Mon {  // harness monitor, only touched inside sim::Untracked
    std::set<const void*> live;   // addresses of live callable instances
    int calls_begun = 0, calls_ended = 0;
    int runnable_dtors = 0;
    int constructed = 0, destroyed = 0;
    int owner_tid = 0;
    int got_int1 = 0, got_int2 = 0;
    std::string got_str;
    int nargs_seen = -1;
};
Mon* M = nullptr;
std::map<std::string, uint64_t> g_extra;

// A member of every tracked callable: registers its address while alive, poisons itself when destroyed.
const char* const PAYLOAD = "state-captured-by-the-callable-that-must-arrive-intact-in-the-new-thread";
struct Tracker {
    int magic;
    std::string payload;   // a moved-from copy loses it: the thread must run a copy that was never moved out of
    Tracker() : magic(0x600D), payload(PAYLOAD) { sim::Untracked u; M->live.insert(this); M->constructed++; }
    Tracker(const Tracker& o) : magic(0x600D), payload(o.payload) { sim::Untracked u; M->live.insert(this); M->constructed++; }
    Tracker(Tracker&& o) noexcept : magic(0x600D), payload(std::move(o.payload)) { sim::Untracked u; M->live.insert(this); M->constructed++; }
    Tracker& operator=(const Tracker&) = default;
    ~Tracker() {
        sim::Untracked u;
        M->live.erase(this);
        M->destroyed++;
        magic = 0xDEAD;
    }
    void check(const char* when) const {
        sim::Untracked u;
        if (!M->live.count(this))
            sim::violation("dead-callable", std::string("the callable object invoked by the new thread is not alive at ") + when + " (its copy was destroyed before the thread ran)");
        if (payload != PAYLOAD)
            sim::violation("callable-state-lost", std::string("the callable invoked by the new thread is a moved-from shell at ") + when + " (its captured state is gone)");
    }
};

void args_seen() { sim::Untracked u; M->nargs_seen = 0; }
void args_seen(int& a) { sim::Untracked u; M->nargs_seen = 1; M->got_int1 = a; a += 1000; }
void args_seen(int& a, std::string& s) { sim::Untracked u; M->nargs_seen = 2; M->got_int1 = a; M->got_str = s; a += 1000; }
void args_seen(int& a, std::string& s, int& b) { sim::Untracked u; M->nargs_seen = 3; M->got_int1 = a; M->got_str = s; M->got_int2 = b; a += 1000; }

int g_body_yields = 0;
// Plain (TSan-visible) result of the callable.  An owner that has seen isFinished()==true reads it before join(): "finished
// only after the callable has returned" is a happens-before claim, so in the T-flavour a completion flag that is published
// without release/acquire ordering shows up as a data race on this variable.
int g_result = 0;

template <class... A>
void invoked(const Tracker* tr, A&... a) {
    if (tr) tr->check("entry");
    { sim::Untracked u; M->calls_begun++; }
    sim::ev(E_CALL_BEGIN, 0, sim::self());
    if (sim::self() == 0) sim::violation("not-a-new-thread", "the callable was invoked on the starting thread");
    args_seen(a...);
    for (int i = 0; i < g_body_yields; i++) sim::yield();
    if (tr) tr->check("exit");
    g_result = 4242;
    sim::ev(E_CALL_END, 0, 0);
    { sim::Untracked u; M->calls_ended++; }
}

// ---- callable kinds
void fn0() { invoked<>(nullptr); }
void fn1(int& a) { invoked(nullptr, a); }
void fn2(int& a, std::string& s) { invoked(nullptr, a, s); }
void fn3(int& a, std::string& s, int& b) { invoked(nullptr, a, s, b); }

struct Functor {
    Tracker tr;
    template <class... A>
    void operator()(A&... a) { invoked(&tr, a...); }
};

// trap: a dangling function pointer that was overwritten by the scribbler lands here
void trap_fn() { sim::violation("dead-callable", "the new thread jumped through a function pointer read from a dead stack frame"); }
void trap_fn1(int&) { trap_fn(); }

__attribute__((noinline)) void scribble(int depth) {
    volatile void* pad[96];
    for (auto& p : pad) p = (void*)&trap_fn;
    asm volatile("" ::"r"(pad) : "memory");
    if (depth > 0) scribble(depth - 1);
    asm volatile("" ::"r"(pad) : "memory");
}

template <class F, class... A>
__attribute__((noinline)) tulz::Thread* launch(int path, F f, A&... a) {
    tulz::Thread* t;
    if (path == 0) {
        t = new tulz::Thread();
        if (t->isFinished()) sim::violation("finished-too-early", "isFinished() is true for a Thread whose callable has not even been started");
        // thread creation may fail (injected EAGAIN): trying again on the SAME Thread object is plain valid use
        for (int attempt = 0;; attempt++) {
            try {
                t->start(f, a...);
                break;
            } catch (const std::system_error&) {
                sim::Untracked u;
                g_extra["start_retried_on_same_object"]++;
                if (attempt >= 2) throw;
            }
        }
    } else {
        t = new tulz::Thread(f, a...);
    }
    return t;
}

struct TrackedRunnable : tulz::Runnable {
    Tracker tr;
    void run() override { invoked<>(&tr); }
    ~TrackedRunnable() override {
        sim::ev(E_RUNNABLE_DTOR, 0, 0);
        sim::Untracked u;
        M->runnable_dtors++;
        if (M->calls_begun != M->calls_ended) sim::violation("runnable-destroyed-while-running", "the Runnable was destroyed during run()");
    }
};

template <class F>
tulz::Thread* launch_n(int path, int nargs, F f, int& a, std::string& s, int& b) {
    switch (nargs) {
        case 0: return launch(path, f);
        case 1: return launch(path, f, a);
        case 2: return launch(path, f, a, s);
        default: return launch(path, f, a, s, b);
    }
}

tulz::Thread* do_launch(int kind, int path, int nargs, int& a, std::string& s, int& b) {
    switch (kind) {
        case 0:  // function pointer
            switch (nargs) {
                case 0: return launch(path, &fn0);
                case 1: return launch(path, &fn1, a);
                case 2: return launch(path, &fn2, a, s);
                default: return launch(path, &fn3, a, s, b);
            }
        case 1: {  // small closure
            Tracker tr;
            auto c = [tr](auto&... x) { invoked(&tr, x...); };
            return launch_n(path, nargs, c, a, s, b);
        }
        case 2: {  // 256-byte closure
            Tracker tr;
            std::array<char, 256> pad{};
            pad[7] = 7;
            auto c = [tr, pad](auto&... x) {
                if (pad[7] != 7) sim::violation("dead-callable", "closure payload corrupted");
                invoked(&tr, x...);
            };
            return launch_n(path, nargs, c, a, s, b);
        }
        case 3: {  // functor
            Functor f;
            return launch_n(path, nargs, f, a, s, b);
        }
        default: {  // Runnable*
            auto* t = new tulz::Thread();
            t->start(new TrackedRunnable());
            return t;
        }
    }
}

void body(const Json& p) {
    int kind = (int)p.get("callable", 1), path = (int)p.get("path", 0), nargs = (int)p.get("nargs", 0);
    g_body_yields = (int)p.get("body_yields", 0);
    g_result = 0;
    int a = 41, b = 43;
    std::string s = "lvalue-string-argument-that-does-not-fit-into-the-small-string-buffer";
    sim::ev(E_LAUNCH_CALL, kind, nargs);
    tulz::Thread* t = nullptr;
    try {
        t = do_launch(kind, path, nargs, a, s, b);
    } catch (const std::system_error&) {
        // injected fault: pthread_create failed (EAGAIN) and the library reported it.  Then nothing may ever run.
        sim::ev(E_LAUNCH_RET, 1, 0);
        for (int i = 0; i < 6; i++) sim::yield();
        sim::Untracked u;
        g_extra["launch_failed_with_system_error"]++;
        if (M->calls_begun != 0) sim::violation("call-count", "start() threw std::system_error but the callable was invoked " + std::to_string(M->calls_begun) + " times");
        return;
    }
    sim::ev(E_LAUNCH_RET, 0, 0);
    auto finished_implies_ended = [&](const char* when) {
        bool f = t->isFinished();
        sim::ev(E_POLL, f, 0);
        sim::Untracked u;
        if (f && M->calls_ended != 1) sim::violation("finished-too-early", std::string("isFinished() returned true ") + when + " although the callable has not returned");
    };
    for (auto& op : p.at("owner").a) {
        const std::string& o = op.at("op").s;
        if (o == "scribble") { sim::ev(E_SCRIBBLE, 0, 0); scribble((int)op.get("n", 3)); }
        else if (o == "yield") { for (int i = 0; i < (int)op.get("n", 1); i++) sim::yield(); }
        else if (o == "poll") {
            for (int i = 0; i < (int)op.get("n", 1); i++) { finished_implies_ended("while polling"); sim::yield(); }
        } else if (o == "poll_until") {
            // spin on isFinished(); the poller is only rescheduled after another thread has run
            for (;;) {
                bool f = t->isFinished();
                sim::ev(E_POLL, f, 0);
                if (f) break;
                sim::yield_poll();
            }
            finished_implies_ended("after spinning");
            if (g_result != 4242) sim::violation("finished-too-early", "isFinished() is true but the callable's result is not visible to the owner");
        }
    }
    sim::ev(E_JOIN_CALL, 0, 0);
    sim::set_tag(1);
    t->join();
    sim::set_tag(0);
    sim::ev(E_JOIN_RET, 0, 0);
    {
        sim::Untracked u;
        if (M->calls_begun != 1 || M->calls_ended != 1)
            sim::violation("call-count", "after join(): callable invoked " + std::to_string(M->calls_begun) + " times, returned " + std::to_string(M->calls_ended) + " times (expected exactly once)");
    }
    if (!t->isFinished()) sim::violation("not-finished-after-join", "isFinished() is false after join() returned");
    {
        sim::Untracked u;
        if (kind == 4) {
            if (M->runnable_dtors != 1) sim::violation("runnable-not-destroyed-once", "Runnable destroyed " + std::to_string(M->runnable_dtors) + " times after join()");
        } else {
            if (M->nargs_seen != nargs) sim::violation("wrong-arguments", "callable saw " + std::to_string(M->nargs_seen) + " arguments, expected " + std::to_string(nargs));
            if (nargs >= 1 && M->got_int1 != 41) sim::violation("wrong-arguments", "first argument arrived as " + std::to_string(M->got_int1));
            if (nargs >= 2 && M->got_str != s) sim::violation("wrong-arguments", "string argument arrived corrupted");
            if (nargs >= 3 && M->got_int2 != 43) sim::violation("wrong-arguments", "third argument arrived as " + std::to_string(M->got_int2));
        }
    }
    delete t;
    {
        sim::Untracked u;
        if (M->constructed != M->destroyed)
            sim::violation("callable-leaked", "callable copies constructed=" + std::to_string(M->constructed) + " destroyed=" + std::to_string(M->destroyed) + " after the Thread object was deleted");
    }
}

}  // namespace

namespace hx {
const char* NAME = "thread_sim";
std::map<std::string, uint64_t>& extra() { return g_extra; }
const char* event_name(int k) {
    switch (k) {
        case E_LAUNCH_CALL: return "launch-call(kind,nargs)";
        case E_LAUNCH_RET: return "launch-frame-dead";
        case E_CALL_BEGIN: return "callable-begin";
        case E_CALL_END: return "callable-end";
        case E_POLL: return "isFinished()";
        case E_JOIN_CALL: return "join-call";
        case E_JOIN_RET: return "join-ret";
        case E_RUNNABLE_DTOR: return "runnable-dtor";
        case E_SCRIBBLE: return "scribble-stack";
    }
    return "?";
}
bool owns(const std::string& prop, const std::string& c) {
    if (prop != "C20") return false;
    static const std::set<std::string> s = {"dead-callable", "not-a-new-thread", "finished-too-early", "call-count", "not-finished-after-join", "runnable-not-destroyed-once",
                                            "runnable-destroyed-while-running", "wrong-arguments", "callable-leaked", "join-hang", "terminate", "crash-signal", "tulz-assert",
                                            "callable-state-lost", "unexpected-exception"};
    return s.count(c) > 0 || c.rfind("asan:", 0) == 0 || c.rfind("tsan:", 0) == 0;
}

void generate(sim::Rng& g, const std::string&, const std::string& tier, Json& program, sim::Config& cfg) {
    program = Json::object();
    int kind = (int)g.below(5);
    program.set("callable", kind).set("path", (int)g.below(2)).set("nargs", kind == 4 ? 0 : (int)g.below(4)).set("body_yields", g.range(0, 3));
    Json owner = Json::array();
    int n = g.range(0, tier == "thorough" ? 6 : 4);
    for (int i = 0; i < n; i++) {
        Json op = Json::object();
        int r = (int)g.below(10);
        if (r < 3) op.set("op", "scribble").set("n", g.range(1, 6));
        else if (r < 6) op.set("op", "yield").set("n", g.range(1, 4));
        else if (r < 9) op.set("op", "poll").set("n", g.range(1, 3));
        else op.set("op", "poll_until");
        owner.push(op);
    }
    program.set("owner", owner);
    drv::draw_sched(g, cfg, false, 40);
    if (kind != 4 && g.below(5) == 0) cfg.create_fail_rate = 0.4;  // pthread_create fails with EAGAIN now and then (not for the Runnable path: who owns it then is unspecified)
    cfg.step_cap = 5000;
}

void execute(const Json& program, const sim::Config& cfg, const std::string&) {
    sim::set_deadlock_classifier([](const std::vector<sim::ThreadInfo>&) { return std::string("join-hang"); });
    Mon mon;
    M = &mon;
    sim::run(cfg, [&] {
        try {
            body(program);
        } catch (const std::exception& e) {  // valid use of the API must not throw: an escaping exception is an outcome to report, not a harness error
            sim::violation("unexpected-exception", std::string("exception escaped from tulz under valid use: ") + e.what());
        }
    });
    auto& evs = sim::events();
    // probe: the new thread first ran after the launching frame had died
    int64_t launch_ret = -1, begin = -1;
    for (auto& e : evs) {
        if (e.kind == E_LAUNCH_RET) launch_ret = e.seq;
        if (e.kind == E_CALL_BEGIN && begin < 0) begin = e.seq;
    }
    if (begin > launch_ret) g_extra["probe_callable_ran_after_launch_frame_died"]++;
    else g_extra["probe_callable_ran_before_launch_returned"]++;
    g_extra["callable_kind_" + std::to_string(program.get("callable", 0))]++;
    M = nullptr;
}

std::string describe(const Json& p) {
    static const char* kinds[] = {"function-pointer", "small-closure", "256-byte-closure", "functor", "Runnable*"};
    std::string s = std::string(kinds[p.get("callable", 0)]) + (p.get("path", 0) ? " via constructor" : " via start()") + " nargs=" + std::to_string(p.get("nargs", 0)) + " body_yields=" +
                    std::to_string(p.get("body_yields", 0)) + "; owner:";
    for (auto& op : p.at("owner").a) s += " " + op.at("op").s + (op.has("n") ? std::to_string(op.get("n", 1)) : "");
    return s + " join";
}

std::vector<Json> shrink(const Json& p) {
    std::vector<Json> out;
    const Json& ow = p.at("owner");
    for (size_t i = 0; i < ow.size(); i++) { Json c = p; c.at("owner").a.erase(c.at("owner").a.begin() + i); out.push_back(c); }
    if (p.get("nargs", 0) > 0) { Json c = p; c.set("nargs", p.get("nargs", 0) - 1); out.push_back(c); }
    if (p.get("body_yields", 0) > 0) { Json c = p; c.set("body_yields", 0); out.push_back(c); }
    if (p.get("path", 0)) { Json c = p; c.set("path", 0); out.push_back(c); }
    if (p.get("callable", 0) == 2 || p.get("callable", 0) == 3) { Json c = p; c.set("callable", 1); out.push_back(c); }
    return out;
}
}  // namespace hx
