#!/usr/bin/env python3
"""mkmut.py <out.diff> <file> <old> <new> [<file> <old> <new> ...]  — builds a patch against /repo HEAD by textual replacement in a scratch worktree"""
import subprocess, sys, tempfile, os, shutil
out = os.path.abspath(sys.argv[1]); args = sys.argv[2:]
d = tempfile.mkdtemp(prefix="tulz-mkmut.", dir="/var/tmp"); os.rmdir(d)
subprocess.check_call(["git", "-C", "/repo", "worktree", "add", "-q", "--detach", d, "HEAD"])
try:
    for i in range(0, len(args), 3):
        p = os.path.join(d, args[i]); s = open(p).read()
        old = args[i+1].encode().decode("unicode_escape"); new = args[i+2].encode().decode("unicode_escape")
        assert s.count(old) == 1, (args[i], old, s.count(old))
        open(p, "w").write(s.replace(old, new))
    diff = subprocess.check_output(["git", "-C", d, "diff"])
    open(out, "wb").write(diff)
    print("wrote", out, len(diff), "bytes")
finally:
    subprocess.call(["git", "-C", "/repo", "worktree", "remove", "--force", d]); shutil.rmtree(d, ignore_errors=True)
