#!/usr/bin/env python3
"""confirm_seeded.py <agent-out-dir/mX> <seeded-id> <property> [more properties to try...] [--tier=quick] [--scale=1]
Confirms a sub-agent's change in a scratch worktree of /repo HEAD (never in /repo): patch applies, the 60 stable tests pass,
the demonstration passes without and fails with the patch; then runs the named checks against it and files everything
under /verif/seeded/<seeded-id>/ (patch.diff, demo.*, README.md, meta.json)."""
import json, os, re, shutil, subprocess, sys, tempfile, time
VERIF = os.path.dirname(os.path.dirname(os.path.abspath(__file__)))

def sh(cmd, **kw):
    return subprocess.run(cmd, capture_output=True, text=True, **kw)

def main():
    pos = [a for a in sys.argv[1:] if not a.startswith("--")]
    opts = dict(a[2:].split("=", 1) for a in sys.argv[1:] if a.startswith("--") and "=" in a)
    src, sid, props = pos[0], pos[1], pos[2:]
    tier = opts.get("tier", "quick"); scale = opts.get("scale", "1")
    d = tempfile.mkdtemp(prefix="tulz-seed.", dir="/var/tmp"); os.rmdir(d)
    subprocess.check_call(["git", "-C", "/repo", "worktree", "add", "-q", "--detach", d, "HEAD"])
    meta = {"seeded_id": sid, "breaks_property": props[0], "source": "independent sub-agent given only the property text and a scratch worktree",
            "repo_head": sh(["git", "-C", "/repo", "rev-parse", "--short", "HEAD"]).stdout.strip(), "confirmed_at": time.strftime("%Y-%m-%d %H:%M:%S")}
    ok = True
    try:
        demo = os.path.join(src, "demo.sh")
        env = dict(os.environ, WT=d)
        r0 = sh(["bash", demo, d], env=env, timeout=600)
        meta["demo_without_patch_exit"] = r0.returncode
        ap = sh(["git", "-C", d, "apply", os.path.join(os.path.abspath(src), "patch.diff")])
        meta["patch_applies"] = ap.returncode == 0
        if ap.returncode != 0:
            print("patch does not apply:", ap.stderr); ok = False
        else:
            b = sh([os.path.join(VERIF, "tools", "baseline_off.sh"), d], timeout=1800)
            meta["existing_tests_with_patch"] = b.stdout.strip().splitlines()[-1] if b.stdout.strip() else b.stderr[-200:]
            ok &= b.returncode == 0
            r1 = sh(["bash", demo, d], env=env, timeout=600)
            meta["demo_with_patch_exit"] = r1.returncode
            meta["demo_with_patch_tail"] = (r1.stdout + r1.stderr)[-400:]
            ok &= (r0.returncode == 0 and r1.returncode != 0)
            results = {}
            if True:   # (check.py writes evidence only for runs against /repo itself)
                for p in props:
                    t0 = time.time()
                    r = sh(["python3", os.path.join(VERIF, "tools", "check.py"), p, tier], env=dict(os.environ, TULZ_REPO=d, VERIF_RUNS_SCALE=scale))
                    m = re.search(r"^  class=(.*?) program=\[(.*)\]$", r.stdout, re.M)
                    results[p] = {"exit": r.returncode, "seconds": round(time.time() - t0, 1),
                                  "verdict": "caught" if r.returncode == 1 and "VIOLATION" in r.stdout else "missed" if r.returncode == 0 else "machinery-fault",
                                  "class": m.group(1) if m else None, "minimised_program": m.group(2) if m else None,
                                  "tail": r.stdout.strip().splitlines()[-1][:300] if r.stdout.strip() else r.stderr[-300:]}
            meta["checks_run"] = {p: "python3 tools/check.py %s %s (TULZ_REPO=<scratch worktree with patch>, scale %s)" % (p, tier, scale) for p in props}
            meta["check_results"] = results
        meta["confirmed"] = bool(ok)
    finally:
        subprocess.call(["git", "-C", "/repo", "worktree", "remove", "--force", d]); shutil.rmtree(d, ignore_errors=True)
    if not ok:
        print(json.dumps(meta, indent=1)); print("NOT CONFIRMED — not filed"); return 1
    out = os.path.join(VERIF, "seeded", sid); os.makedirs(out, exist_ok=True)
    for f in ("patch.diff", "demo.cpp", "demo.sh", "README.md"):
        if os.path.exists(os.path.join(src, f)): shutil.copy(os.path.join(src, f), os.path.join(out, f))
    readme = open(os.path.join(src, "README.md")).read() if os.path.exists(os.path.join(src, "README.md")) else ""
    meta["needs_to_manifest"] = opts.get("needs", "see README.md")
    json.dump(meta, open(os.path.join(out, "meta.json"), "w"), indent=1)
    print(sid, {p: (r["verdict"], r["class"]) for p, r in meta.get("check_results", {}).items()})
    return 0

if __name__ == "__main__":
    sys.exit(main())
