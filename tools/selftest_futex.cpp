// quick self-test of the futex seam: std::atomic wait/notify, std::latch, std::counting_semaphore under the simulator
#include "../sim/detsim.h"
#include <atomic>
#include <latch>
#include <semaphore>
#include <thread>
#include <cstdio>
#include <cstdlib>
#include <unistd.h>
int main(int argc, char** argv) {
    sim::set_fatal_sink([](const sim::Fatal& f) { printf("FATAL %s %s %s\n", f.kind.c_str(), f.vclass.c_str(), f.detail.c_str()); fflush(stdout); _exit(10); });
    uint64_t hsum = 0;
    for (int seed = 1; seed <= 300; seed++) {
        sim::Config c; c.sched_seed = seed; c.strategy = seed % 4; c.spurious_rate = seed % 2 ? 0.05 : 0;
        int result = 0;
        sim::run(c, [&] {
            std::atomic<int> flag{0};
            std::latch done(3);
            std::counting_semaphore<4> sem(0);
            int data = 0;
            std::thread a([&] { flag.wait(0); data += 1; done.count_down(); });
            std::thread b([&] { sem.acquire(); data += 10; done.count_down(); });
            std::thread c2([&] { data += 100; flag.store(1); flag.notify_all(); sem.release(); done.count_down(); });
            done.wait();
            a.join(); b.join(); c2.join();
            result = data;
        });
        if (result != 111) { printf("BAD result %d at seed %d\n", result, seed); return 1; }
        hsum ^= sim::stats().event_hash * seed;
    }
    printf("ok %016llx\n", (unsigned long long)hsum);
}
