#!/usr/bin/env python3
"""Driver of every registered check.

  check.py <ID> quick|thorough        seeded search; exit 0 / 1 (+ VIOLATION line) / 2 (machinery fault, nothing claimed)
  check.py <ID> --replay <file>       re-executes a replay file in a fresh process; exit 1 if it reproduces its violation

Honours VERIF_SEED and VERIF_TIER (the positional tier wins).  Always rebuilds from /repo's current working tree
(object cache keyed by content hash).  Rewrites /verif/evidence/<ID>.json on every run.
"""
import json
import os
import re
import subprocess
import sys
import threading
import time

VERIF = os.path.dirname(os.path.dirname(os.path.abspath(__file__)))
sys.path.insert(0, os.path.join(VERIF, "tools"))
import build as builder  # noqa: E402

WORKERS = int(os.environ.get("VERIF_WORKERS", "16"))
WORKDIR = os.path.join(VERIF, "work", "d%d" % os.getpid())     # scratch trees of path_sim (never /tmp); removed at exit
CHILD_ENV = dict(os.environ, VERIF_WORK=WORKDIR)

# property -> legs.  A leg = (harness, flavour, runs quick, runs thorough)
PROPS = {
    # the second leg of the thread properties is the T-flavour build, in which every std::atomic operation of tulz is a
    # scheduling point as well (sim/tsan_atomics.cpp): same oracles, finer interleaving granularity, no ASan
    "C01": [("resource_sim", "A", 30000, 1000000), ("resource_sim", "R", 15000, 500000), ("resource_sim", "T", 6000, 200000)],
    "C02": [("resource_sim", "A", 30000, 1000000), ("resource_sim", "T", 6000, 200000)],
    "C03": [("resource_sim", "A", 30000, 1000000), ("resource_sim", "T", 6000, 200000)],
    "C12": [("resource_sim", "A", 30000, 1000000), ("resource_sim", "T", 6000, 200000)],
    "C07": [("pool_sim", "A", 80000, 2000000), ("pool_sim", "T", 20000, 600000)],
    "C08": [("pool_sim", "A", 80000, 2000000), ("pool_sim", "T", 20000, 600000)],
    "C20": [("thread_sim", "A", 200000, 4000000), ("thread_sim", "T", 60000, 1000000)],
    "C11": [("router_sim", "A", 30000, 1000000), ("router_sim", "T", 9000, 300000)],
    "C10": [("subject_sim", "A", 1000000, 15000000)],
    "C18": [("path_sim", "A", 30000, 400000)],
    "C15": [("resource_sim", "T", 24000, 900000), ("pool_sim", "T", 24000, 900000), ("router_sim", "T", 16000, 600000)],
}

RULES = {
    "resource_sim": "each case = a generated multi-threaded lock program (2-7 threads, 1-5 read/write sections each, raw calls or guards, yields inside "
                    "sections; for C12 also rendezvous batches) executed under one seeded schedule (strategy uniform/sticky/PCT/starvation, optional "
                    "spurious wake-ups); non-trivial = the run had at least one scheduling point with >=2 enabled threads or an injected fault; "
                    "distinct = distinct (program hash, decision-sequence hash) pairs",
    "pool_sim": "each case = a generated owner program over one ThreadPool (start/clear/stop/restart/update/getters, instrumented tasks) under one seeded "
                "schedule with optional spurious wake-ups, PRNG-chosen notify_one target and wall-clock jumps; non-trivial and distinct as for resource_sim",
    "thread_sim": "each case = one tulz::Thread launch (callable kind x start path x lvalue arguments, or a Runnable) from a frame that dies, followed by "
                  "stack scribbling, under one seeded schedule; non-trivial = >=1 scheduling point with >=2 enabled threads; distinct = distinct (program, schedule) hashes",
    "router_sim": "each case = 2-4 threads x 2-4 operations (notify/subscribe/unsubscribe/shrink/exists/depth) on one ConcurrentSubjectRouter under one seeded "
                  "schedule; history checked for linearizability against a sequential router model plus containment rules; non-trivial/distinct as above",
    "subject_sim": "each case = a top-level operation list on one Subject plus, at every observer invocation, 0-2 injected actions drawn by the simulator "
                   "(subscribe/unsubscribe/mute/unmute/invalidate/nested notify on any target); non-trivial = >=1 action injected inside a running "
                   "notification round; distinct = distinct (program, decision-sequence) hashes",
    "path_sim": "each case = a generated directory tree on the real file system, enumerated through a simulated directory stream (PRNG order, '.'/'..' "
                "placement, DT_UNKNOWN), with a drawn handle budget and nested DirectoryVisitors; non-trivial = tree with >=2 entries in some directory; "
                "distinct = distinct (tree, enumeration decision) hashes",
}

COMPONENTS = {
    "real_code": ["every tulz translation unit compiled from /repo's working tree (no source hooks)", "libstdc++ std::thread/mutex/condition_variable wrappers, <regex>, containers",
                  "real OS threads and stacks", "AddressSanitizer / ThreadSanitizer runtimes", "real file system (path_sim)"],
    "stub_or_model": ["pthread mutex / condvar / rwlock / create / join semantics (sim/detsim.cpp, ~150 lines of model)", "wall clock and sleeps (simulated, discrete ms)",
                      "directory stream opendir/readdir/closedir (path_sim)"],
}


def known_findings():
    p = os.path.join(VERIF, "known_findings.json")
    if not os.path.exists(p):
        return []
    return [e for e in json.load(open(p)).get("findings", []) if e.get("status") == "known"]


class Leg:
    def __init__(self, prop, harness, flavour, runs, seed, tier):
        self.prop, self.harness, self.flavour, self.runs, self.seed, self.tier = prop, harness, flavour, runs, seed, tier
        self.exe = None
        self.lock = threading.Lock()
        self.summaries = {}          # worker slot -> list of last summaries of each (re)started process
        self.hashes = set()
        self.evaluations = 0
        self.nontrivial_runs = 0
        self.other = {}              # class -> count  (violations that belong to another property)
        self.stepcaps = 0
        self.hangs = 0
        self.found = None            # (idx, class, detail) first owned violation
        self.machinery = []
        self.stop = False
        self.steps = 0
        self.known_hits = []
        self.first = 0               # first run index of the next search pass (moves past a listed known finding)

    def base_cmd(self):
        return [self.exe, "--prop", self.prop, "--tier", self.tier, "--seed", str(self.seed), "--flavour", self.flavour]

    def worker(self, slot, nslots):
        start = self.first + slot
        errpath = None
        while start < self.runs and not self.stop:
            cmd = self.base_cmd() + ["--loop", "--from", str(start), "--to", str(self.runs), "--stride", str(nslots)]
            errpath = os.path.join(builder.BUILD, "err-%s-%s-%d-%d.txt" % (self.prop, self.harness, os.getpid(), slot))
            with open(errpath, "w") as ef:
                p = subprocess.Popen(cmd, stdout=subprocess.PIPE, stderr=ef, text=True, bufsize=1 << 16, env=CHILD_ENV)
                last_idx = start - nslots
                vline = None
                last_summary = None
                for line in p.stdout:
                    if line.startswith("R "):
                        f = line.split()
                        last_idx = int(f[1])
                        with self.lock:
                            self.evaluations += 1
                            self.steps += int(f[5])
                            if f[6] == "1":
                                self.nontrivial_runs += 1
                                self.hashes.add((int(f[2], 16) * 0x9E3779B97F4A7C15 ^ int(f[3], 16)) & 0xFFFFFFFFFFFFFFFF)
                    elif line.startswith("SUMMARY "):
                        last_summary = json.loads(line[8:])
                    elif line.startswith("V ") and vline is None:
                        vline = line.strip()
                    elif line.startswith("HANG"):
                        vline = "HANG"
                    if self.stop:
                        p.kill()
                        break
                p.wait()
            with self.lock:
                if last_summary:
                    self.summaries.setdefault(slot, []).append(last_summary)
            if self.stop:
                break
            code = p.returncode
            if code == 0:
                break
            cur = last_idx + nslots   # the run that was in progress
            m = re.match(r"V idx=(\d+) seed=(\d+) status=(\S+) class=(\S*) owned=(\d) detail=(.*)", vline or "")
            if m:
                cur = int(m.group(1))
            if vline == "HANG" or code == 14:
                with self.lock:
                    self.hangs += 1
                    self.machinery.append("run %d: no progress for 60 s of real time (thread blocked outside the simulator?)" % cur)
            elif m and m.group(3) == "stepcap":
                with self.lock:
                    self.stepcaps += 1
            elif m and m.group(3) == "violation":
                cls, owned, detail = m.group(4), m.group(5) == "1", m.group(6)
                with self.lock:
                    if owned:
                        if self.found is None or cur < self.found[0]:
                            self.found = (cur, cls, detail)
                        self.stop = True
                    else:
                        self.other[cls] = self.other.get(cls, 0) + 1
            elif code in (77, 66) or (m and m.group(3) == "sanitizer"):
                err = open(errpath).read()
                sm = re.search(r"SUMMARY: (\w+): (.*)", err)
                cls = "sanitizer"
                if sm:
                    cls = sanitizer_class("asan" if sm.group(1) == "AddressSanitizer" else "tsan" if sm.group(1) == "ThreadSanitizer" else sm.group(1), sm.group(2))
                owned = self.owns_sanitizer(cls)
                with self.lock:
                    if owned:
                        if self.found is None or cur < self.found[0]:
                            self.found = (cur, cls, err[-3000:])
                        self.stop = True
                    else:
                        self.other[cls] = self.other.get(cls, 0) + 1
            else:
                err = open(errpath).read()
                with self.lock:
                    self.machinery.append("worker exit code %d at run %d: %s" % (code, cur, err[-600:]))
                    self.stop = True
            start = cur + nslots
        try:
            if errpath:
                os.unlink(errpath)
        except OSError:
            pass

    def owns_sanitizer(self, cls):
        if self.prop == "C15":
            return cls.startswith("tsan")
        if self.prop == "C20" and self.flavour == "T":
            return cls.startswith("tsan")   # completion flag published without happens-before (thread_sim reads the result after polling)
        # memory errors surface through the property whose harness provoked them
        return cls.startswith("asan") and self.prop in ("C10", "C11", "C20", "C07", "C08", "C18", "C01", "C02")

    def run(self):
        self.found = None
        self.stop = False
        self.exe = builder.build(self.harness, self.flavour)
        n = min(WORKERS, max(1, self.runs // 50))
        ths = [threading.Thread(target=self.worker, args=(i, n)) for i in range(n)]
        for t in ths:
            t.start()
        for t in ths:
            t.join()


def merge_summaries(legs):
    tot = {}

    def add(dst, src):
        for k, v in src.items():
            if isinstance(v, dict):
                add(dst.setdefault(k, {}), v)
            elif isinstance(v, (int, float)) and not isinstance(v, bool):
                dst[k] = dst.get(k, 0) + v
    samples = []
    for leg in legs:
        for _slot, lst in leg.summaries.items():
            for s in lst:
                ss = dict(s)
                for smp in ss.pop("samples", []):
                    if len(samples) < 4:
                        smp["harness"] = leg.harness
                        samples.append(smp)
                add(tot, ss)
    return tot, samples


def write_evidence(prop, tier, seed, legs, wall, violations, extra_notes):
    tot, samples = merge_summaries(legs)
    evaluations = sum(l.evaluations for l in legs)
    distinct = sum(len(l.hashes) for l in legs)
    if not samples:
        samples = [{"note": "no run completed"}]
    cov = {
        "evaluations": evaluations,
        "distinct_nontrivial": distinct,
        "rule": " || ".join(sorted(set(RULES[l.harness] for l in legs))),
        "samples": samples,
        "runs_per_hour": int(evaluations / max(wall, 1e-6) * 3600),
        "seeds_per_hour": int(evaluations / max(wall, 1e-6) * 3600),
        "simulated_time_ms": tot.get("sim_ms", 0),
        "scheduling_points": tot.get("steps", 0),
        "scheduling_points_with_choice": tot.get("choice_points", 0),
        "context_switches": tot.get("switches", 0),
        "simulated_threads": tot.get("threads", 0),
        "fault_kinds_fired": tot.get("faults_fired", {}),
        "runs_with_fault_kind_enabled": tot.get("runs_with_fault_enabled", {}),
        "strategy_runs": tot.get("strategy_runs", {}),
        "probes_and_harness_counters": tot.get("extra", {}),
        "mutex_contentions": tot.get("mutex_contended", 0),
        "condvar_parks": tot.get("cond_parks", 0),
        "step_cap_hits_inconclusive": sum(l.stepcaps for l in legs),
        "runs_aborted_by_other_property": {k: v for l in legs for k, v in l.other.items()},
        "legs": [{"harness": l.harness, "flavour": l.flavour, "runs_requested": l.runs, "runs_completed": l.evaluations, "distinct_nontrivial": len(l.hashes)} for l in legs],
        "components": COMPONENTS,
        "workers": WORKERS,
    }
    cov.update(extra_notes)
    ev = {
        "property_id": prop, "tier": tier, "seed": seed, "level": "exploration", "coverage": cov,
        "assumptions": [
            "the pthread/clock model in sim/detsim.cpp only produces behaviours POSIX allows (trusted, ~150 lines)",
            "interleavings are explored at synchronisation-call granularity plus harness yield points",
            "sampling: a clean batch is evidence, not proof",
        ],
        "wall_s": round(wall, 2), "violations": violations,
    }
    # evidence describes /repo only: runs against a scratch copy (TULZ_REPO=..., mutant sweeps) must not overwrite it
    evdir = os.path.join(VERIF, "evidence") if os.path.realpath(builder.REPO) == "/repo" else os.path.join(builder.BUILD, "evidence-scratch")
    os.makedirs(evdir, exist_ok=True)
    path = os.path.join(evdir, prop + ".json")
    with open(path + ".tmp", "w") as f:
        json.dump(ev, f, indent=1)
    os.rename(path + ".tmp", path)


def sanitizer_class(tool, rest):
    """same normalisation as drv::sanitizer_class in harness/common.h"""
    kind = []
    for tok in rest.split(" "):
        if "/" in tok or tok.startswith("0x") or tok.startswith("(") or tok == "in":
            break
        kind.append(tok)
    fn = rest.split(" in ", 1)[1].split("(")[0] if " in " in rest else ""
    return tool + ":" + " ".join(kind) + ((" in " + fn) if fn else "")


def replay(prop, path):
    j = json.load(open(path))
    exe = builder.build(j["harness"], j.get("flavour", "A"))
    os.makedirs(WORKDIR, exist_ok=True)
    r = subprocess.run([exe, "--prop", j["property"], "--flavour", j.get("flavour", "A"), "--replay", path], capture_output=True, text=True, env=CHILD_ENV)
    sys.stdout.write(r.stdout)
    want = j["result"]["class"]
    got = None
    m = re.search(r"RESULT status=(\S+) class=(\S*)", r.stdout)
    if m and m.group(1) == "violation":
        got = m.group(2)
    sm = re.search(r"SUMMARY: (\w+): (.*)", r.stderr)
    if sm:
        sys.stdout.write(r.stderr[-4000:])
        tool = "asan" if sm.group(1) == "AddressSanitizer" else "tsan" if sm.group(1) == "ThreadSanitizer" else sm.group(1)
        got = sanitizer_class(tool, sm.group(2))
    return want, got


def main():
    if len(sys.argv) < 3:
        print(__doc__)
        return 2
    prop = sys.argv[1]
    if prop not in PROPS:
        print("unknown property", prop)
        return 2
    if sys.argv[2] == "--replay":
        want, got = replay(prop, sys.argv[3])
        if got is not None and got == want:
            print("VIOLATION property=%s replay=%s" % (prop, sys.argv[3]))
            return 1
        print("replay did not reproduce: expected class %r, got %r" % (want, got))
        return 0 if got is None else 2
    tier = sys.argv[2] if sys.argv[2] in ("quick", "thorough") else os.environ.get("VERIF_TIER", "quick")
    seed = int(os.environ.get("VERIF_SEED", "1"))
    t0 = time.time()
    legs = [Leg(prop, h, fl, (rq if tier == "quick" else rt), seed, tier) for (h, fl, rq, rt) in PROPS[prop]]
    only = os.environ.get("VERIF_ONLY_FLAVOURS")   # development aid (mutant sweeps): restrict to some legs, e.g. "A"
    if only and any(l.flavour in only.split(",") for l in legs):
        legs = [l for l in legs if l.flavour in only.split(",")]
    scale = float(os.environ.get("VERIF_RUNS_SCALE", "1"))
    for l in legs:
        l.runs = max(1, int(l.runs * scale))
    known = [k for k in known_findings() if k["property"] == prop]
    violation_path = None
    known_printed = []
    for leg in legs:
        while True:
            leg.run()
            if leg.machinery or not leg.found:
                break
            idx, cls, detail = leg.found
            print("candidate violation: property=%s harness=%s run=%d class=%s\n  %s" % (prop, leg.harness, idx, cls, detail[:400]))
            os.makedirs(os.path.join(VERIF, "replays"), exist_ok=True)
            out = os.path.join(VERIF, "replays", "%s-%s-seed%d-run%d.json" % (prop, leg.harness, seed, idx))
            r = subprocess.run(leg.base_cmd() + ["--investigate", str(idx), "--out", out], capture_output=True, text=True, env=CHILD_ENV)
            sys.stdout.write(r.stdout)
            if r.returncode != 10:
                leg.machinery.append("investigation of run %d did not confirm the violation (exit %d): %s" % (idx, r.returncode, r.stderr[-500:]))
                break
            want, got = replay(prop, out)   # fresh process
            if got != want:
                leg.machinery.append("minimised replay file did not reproduce in a fresh process (want %r got %r)" % (want, got))
                break
            j = json.load(open(out))
            kf = None
            for k in known:
                if k.get("class") == j["result"]["class"] and re.search(k.get("signature", ".*"), j["result"]["detail"] + " " + j["describe"]):
                    kf = k
            if kf is None:
                violation_path = out
                break
            # a listed finding: say so (once per entry) and keep searching behind it, so that a different violation is still reported
            if kf not in known_printed:
                known_printed.append(kf)
                print("KNOWN-FINDING: property=%s %s" % (prop, kf.get("what", kf.get("class"))))
            leg.known_hits.append(idx)
            leg.first = idx + 1
            if len(leg.known_hits) > 200:
                break
        if leg.machinery or violation_path:
            break
    wall = time.time() - t0
    mach = [m for l in legs for m in l.machinery]
    hangs = sum(l.hangs for l in legs)
    notes = {}
    if mach:
        notes["machinery_faults"] = mach
    if known_printed:
        notes["known_findings_met"] = [{"entry": k, "runs": [i for l in legs for i in l.known_hits][:50]} for k in known_printed]
    if violation_path:
        j = json.load(open(violation_path))
        write_evidence(prop, tier, seed, legs, wall, 1, dict(notes, violation={"class": j["result"]["class"], "detail": j["result"]["detail"], "replay": violation_path,
                                                                                  "minimised_program": j["describe"]}))
        print("VIOLATION property=%s replay=%s" % (prop, violation_path))
        print("  class=%s program=[%s]\n  %s" % (j["result"]["class"], j["describe"], j["result"]["detail"][:600]))
        return 1
    write_evidence(prop, tier, seed, legs, wall, 0, notes)
    ev = sum(l.evaluations for l in legs)
    print("%s %s: %d runs, %d distinct non-trivial (program,schedule) pairs, %.1fs, other-property aborts=%s, stepcaps=%d" % (
        prop, tier, ev, sum(len(l.hashes) for l in legs), wall, {k: v for l in legs for k, v in l.other.items()}, sum(l.stepcaps for l in legs)))
    if mach or hangs:
        print("MACHINERY-FAULT (no verdict):", "; ".join(mach)[:2000])
        return 2
    if sum(l.stepcaps for l in legs) > ev * 0.01 + 5:
        print("INCONCLUSIVE: too many runs hit the step cap")
        return 2
    return 0


if __name__ == "__main__":
    import shutil
    os.makedirs(WORKDIR, exist_ok=True)
    try:
        rc = main()
    finally:
        shutil.rmtree(WORKDIR, ignore_errors=True)
    sys.exit(rc)
