#!/usr/bin/env python3
"""setup_cmd: checks the toolchain the checks need; builds nothing that depends on /repo."""
import shutil, subprocess, sys, tempfile, os
ok = True
for tool in ("g++", "ar", "python3"):
    if not shutil.which(tool):
        print("missing tool:", tool); ok = False
d = tempfile.mkdtemp(prefix="verif-setup-", dir="/var/tmp")
try:
    src = os.path.join(d, "t.cpp")
    open(src, "w").write("#include <thread>\nint main(){std::thread t([]{});t.join();}\n")
    for fl in ("-fsanitize=address", "-fsanitize=thread"):
        r = subprocess.run(["g++", "-std=c++20", fl, src, "-o", os.path.join(d, "t"), "-pthread"], capture_output=True, text=True)
        if r.returncode != 0 or subprocess.run([os.path.join(d, "t")]).returncode != 0:
            print("toolchain check failed for", fl, r.stderr[-500:]); ok = False
finally:
    shutil.rmtree(d, ignore_errors=True)
os.makedirs(os.path.join(os.path.dirname(os.path.dirname(os.path.abspath(__file__))), "build"), exist_ok=True)
print("setup ok" if ok else "setup FAILED")
sys.exit(0 if ok else 1)
