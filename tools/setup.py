#!/usr/bin/env python3
"""setup_cmd: checks the toolchain the checks need; builds nothing that depends on /repo."""
import shutil, subprocess, sys, tempfile, os
ok = True
for tool in ("g++", "ar", "python3"):
    if not shutil.which(tool):
        print("missing tool:", tool); ok = False
d = tempfile.mkdtemp(prefix="verif-setup-", dir="/var/tmp")
try:
    src = os.path.join(d, "t.cpp")
    open(src, "w").write("#include <thread>\nint main(){std::thread t([]{});t.join();}\n")
    for fl in ("-fsanitize=address", "-fsanitize=thread"):
        r = subprocess.run(["g++", "-std=c++20", fl, src, "-o", os.path.join(d, "t"), "-pthread"], capture_output=True, text=True)
        if r.returncode != 0 or subprocess.run([os.path.join(d, "t")]).returncode != 0:
            print("toolchain check failed for", fl, r.stderr[-500:]); ok = False
    # self-test of the simulator core (scheduler, futex seam, determinism of one small multi-threaded program)
    V = os.path.dirname(os.path.dirname(os.path.abspath(__file__)))
    exe = os.path.join(d, "selftest")
    r = subprocess.run(["g++", "-std=c++20", "-O1", "-g", os.path.join(V, "tools", "selftest_futex.cpp"), os.path.join(V, "sim", "detsim.cpp"), os.path.join(V, "sim", "dirsim.cpp"),
                        "-I" + os.path.join(V, "tools"), "-o", exe, "-ldl", "-pthread", "-rdynamic"], capture_output=True, text=True)
    if r.returncode != 0:
        print("simulator self-test does not build:", r.stderr[-800:]); ok = False
    else:
        a = subprocess.run([exe], capture_output=True, text=True)
        b = subprocess.run([exe], capture_output=True, text=True)
        if a.returncode != 0 or not a.stdout.startswith("ok ") or a.stdout != b.stdout:
            print("simulator self-test failed:", a.stdout[-300:], b.stdout[-300:]); ok = False
        else:
            print("simulator self-test:", a.stdout.strip())
finally:
    shutil.rmtree(d, ignore_errors=True)
os.makedirs(os.path.join(os.path.dirname(os.path.dirname(os.path.abspath(__file__))), "build"), exist_ok=True)
print("setup ok" if ok else "setup FAILED")
sys.exit(0 if ok else 1)
