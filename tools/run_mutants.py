#!/usr/bin/env python3
"""run_mutants.py <dir-or-patch>... [--props C01,C02] [--tier quick]
Applies each patch to a scratch worktree of /repo HEAD (never to /repo), runs the named checks against it and prints
which check caught it. Mapping patch -> properties to try comes from mutants/expect.json or --props."""
import json, os, subprocess, sys, tempfile, shutil, re
VERIF = os.path.dirname(os.path.dirname(os.path.abspath(__file__)))

def run_one(patch, props, tier, scale):
    d = tempfile.mkdtemp(prefix="tulz-mut.", dir="/var/tmp"); os.rmdir(d)
    subprocess.check_call(["git", "-C", "/repo", "worktree", "add", "-q", "--detach", d, "HEAD"])
    res = {}
    try:
        r = subprocess.run(["git", "-C", d, "apply", patch], capture_output=True, text=True)
        if r.returncode != 0:
            return {"apply": "FAILED " + r.stderr.strip()[:200]}
        for p in props:
            env = dict(os.environ, TULZ_REPO=d, VERIF_RUNS_SCALE=str(scale))
            r = subprocess.run(["python3", os.path.join(VERIF, "tools", "check.py"), p, tier], capture_output=True, text=True, env=env)
            m = re.search(r"class=(\S.*?) program=", r.stdout)
            v = re.search(r"^VIOLATION .*", r.stdout, re.M)
            if r.returncode == 1 and v:
                res[p] = "CAUGHT " + (m.group(1) if m else "?")
            elif r.returncode == 0:
                o = re.search(r"other-property aborts=(\{.*?\})", r.stdout)
                res[p] = "missed" + (" (other: %s)" % o.group(1) if o and o.group(1) != "{}" else "")
            else:
                res[p] = "exit %d: %s" % (r.returncode, (r.stdout + r.stderr)[-300:].replace("\n", " "))
    finally:
        subprocess.call(["git", "-C", "/repo", "worktree", "remove", "--force", d]); shutil.rmtree(d, ignore_errors=True)
    return res

def main():
    args = [a for a in sys.argv[1:] if not a.startswith("--")]
    opts = dict(a[2:].split("=", 1) for a in sys.argv[1:] if a.startswith("--") and "=" in a)
    tier = opts.get("tier", "quick"); scale = float(opts.get("scale", "1"))
    expect = {}
    for ep in (os.path.join(VERIF, "mutants", "expect.json"), os.path.join(VERIF, "mutants", "benign", "expect.json")):
        if os.path.exists(ep): expect.update(json.load(open(ep)))
    patches = []
    for a in args:
        if os.path.isdir(a):
            patches += sorted(os.path.join(a, f) for f in os.listdir(a) if f.endswith(".diff"))
        else: patches.append(a)
    # (check.py writes evidence only for runs against /repo itself, so nothing has to be saved and restored here)
    if True:
        for p in patches:
            name = os.path.basename(p)
            props = opts["props"].split(",") if "props" in opts else expect.get(name, [])
            if not props: print("%-36s (no properties named)" % name); continue
            res = run_one(os.path.abspath(p), props, tier, scale)
            print("%-36s %s" % (name, "  ".join("%s:%s" % kv for kv in res.items())), flush=True)

if __name__ == "__main__":
    main()
