#!/usr/bin/env python3
"""determinism.py <harness> <flavour> <prop> <runs> [tier]
Executes run indices 0..runs-1 three times — with 1, 4 and 16 worker processes (so every index lands in a different
process / slot / position each time) — and compares (program hash, schedule hash, event hash, steps) per index."""
import os, subprocess, sys, concurrent.futures
sys.path.insert(0, os.path.dirname(os.path.abspath(__file__)))
import build as builder

def collect(exe, prop, flavour, tier, seed, runs, workers):
    def one(w):
        cmd = [exe, "--prop", prop, "--tier", tier, "--seed", str(seed), "--flavour", flavour, "--loop", "--from", str(w), "--to", str(runs), "--stride", str(workers)]
        env = dict(os.environ, VERIF_WORK="/verif/work/det%d" % os.getpid())
        r = subprocess.run(cmd, capture_output=True, text=True, env=env)
        if r.returncode != 0:
            raise SystemExit("worker failed (%d): %s %s" % (r.returncode, r.stdout[-300:], r.stderr[-600:]))
        return [l.split()[1:6] for l in r.stdout.splitlines() if l.startswith("R ")]
    out = {}
    with concurrent.futures.ThreadPoolExecutor(max_workers=workers) as ex:
        for lst in ex.map(one, range(workers)):
            for f in lst:
                out[int(f[0])] = tuple(f[1:])
    return out

def main():
    harness, flavour, prop, runs = sys.argv[1], sys.argv[2], sys.argv[3], int(sys.argv[4])
    tier = sys.argv[5] if len(sys.argv) > 5 else "quick"
    seed = int(os.environ.get("VERIF_SEED", "1"))
    exe = builder.build(harness, flavour)
    os.makedirs("/verif/work", exist_ok=True)
    base = collect(exe, prop, flavour, tier, seed, runs, 1)
    bad = 0
    for w in (4, 16):
        other = collect(exe, prop, flavour, tier, seed, runs, w)
        for i in range(runs):
            if base.get(i) != other.get(i):
                bad += 1
                if bad < 10:
                    print("MISMATCH idx=%d 1-worker=%s %d-workers=%s" % (i, base.get(i), w, other.get(i)))
    import shutil; shutil.rmtree("/verif/work/det%d" % os.getpid(), ignore_errors=True)
    print("determinism %s/%s/%s: %d indices x 3 executions (1, 4, 16 workers): %d mismatches" % (harness, flavour, prop, runs, bad))
    return 1 if bad else 0

if __name__ == "__main__":
    sys.exit(main())
