#!/usr/bin/env python3
"""Writes /verif/MANIFEST.json from the tables below (single source of truth for what is claimed)."""
import json, os, sys
VERIF = os.path.dirname(os.path.dirname(os.path.abspath(__file__)))

CLAIMED = {
    # id: (harness / engine, technique, level text, level note, design ref)
    "C01": ("detsim", "deterministic simulation: seeded schedule search over generated lock programs, holder-count invariant checked at every acquisition",
            "Seeded search (sampling) over thread schedules of generated read/write lock programs running the real Resource code; every acquisition is checked against 'writers<=1 and not(writer and reader)'. Exploration is the right level: the property is quantified over schedules, the defect class is small-scope (<=3 threads), and each failure is an exactly replayable schedule.",
            "Three legs: A (ASan, tulz asserts live), R (as released: -O2 -DNDEBUG, only the harness oracle can notice), T (every std::atomic operation is a scheduling point). Trusted: pthread/futex model of sim/detsim.cpp; interleavings at synchronisation-call (A, R) or atomic-operation (T) granularity; sampling, not proof.", "§5 C01"),
    "C02": ("detsim", "deterministic simulation: scheduler-level deadlock detection (bounded liveness) + idle probe after quiescence, with and without injected spurious wake-ups",
            "Every generated program must run to completion under every sampled schedule (no runnable thread while a requester is parked = lost wake-up), and after all threads are joined the Resource must grant write, read, read without parking.",
            "Legs A and T (atomic scheduling points). Trusted: pthread/futex model; spurious wake-ups are injected only in half of the runs because they can mask a lost notification; a per-run clock-speed knob lets simulated seconds pass so that timed waits would expire; sampling.", "§5 C02"),
    "C03": ("detsim", "deterministic simulation: order rule over recorded issue/park/grant events of every sampled schedule",
            "History check: if request A was observed parked before request B was issued and they are not both reads, B is never granted before A. The premise uses scheduler-visible parking, so it does not depend on tie-breaking between truly concurrent calls.",
            "Legs A and T. Trusted: pthread/futex model; park = thread blocked in pthread_cond_wait inside lock*(); rules are per Resource when a program uses two; sampling.", "§5 C03"),
    "C07": ("detsim", "deterministic simulation: seeded schedule search over owner programs on one ThreadPool; task life-cycle log checked per task (runs<=1, destroyed exactly once, never during run, must-run tasks ran, FIFO with one worker)",
            "Generated owner programs (start/clear/stop/restart/wait/getters, Runnable tasks and callables with lvalue arguments) against the real ThreadPool with non-expiring workers; every task's submit/begin/end/destroy events are checked; a must-run task that never runs shows up as a scheduler-level deadlock; ASan catches a task freed while running.",
            "Legs A (ASan) and T (atomic scheduling points). Trusted: pthread/futex model; PRNG-chosen notify_one target and spurious wake-ups are legal POSIX behaviours; one owner thread, non-expiring workers (the property's scope); sampling.", "§5 C07"),
    "C08": ("detsim", "deterministic simulation: scheduler-level deadlock detection around stop() + post-stop state checks + restart probe, with expiry, clock jumps and starvation of workers between predicate and blocking",
            "stop() must return under every sampled schedule (owner blocked in join while a worker is parked = stop-hang); afterwards thread count 0, nothing running, every earlier task destroyed, a later start() runs its task and a second stop() returns; live worker threads never exceed the maximum.",
            "Legs A and T. Trusted: pthread/futex model and simulated wall clock (jumps in both directions); one owner thread (the properties' scope: concurrent start() callers are not exercised); sampling.", "§5 C08"),
    "C10": ("detsim", "deterministic simulation (single thread): the simulator injects 0-2 mutations at every observer invocation of a running notify round; lock-step reference model of rounds + AddressSanitizer",
            "Borderline case of the family, claimed because the property is about operations that overlap in time with a running notification: the simulator decides online what overlaps with what. Oracle: reference model (round snapshot, skip/expect rules, argument values, handle facts) and ASan for memory safety.",
            "Trusted: the round model is derived from the property text; validity between invalidate() and lazy removal is left open; sampling over decision sequences.", "§5 C10"),
    "C11": ("detsim", "deterministic simulation: seeded schedule search over multi-threaded router programs; completed history checked for linearizability (Wing-Gong search vs. sequential model) + containment and no-call-after-unsubscribe rules + ASan",
            "2-4 threads x 1-4 operations on one ConcurrentSubjectRouter with callbacks that stay in progress across scheduling points; every completed history must be linearizable w.r.t. a sequential live-set model; a delivery in progress when a mutator is called must end before the mutator returns.",
            "Legs A (ASan) and T (atomic scheduling points). Trusted: pthread/futex model; return values of notify/exists/depth are checked as ranges so that shrink's clean-up policy is not encoded; argument-less notifications only; a quarter of the programs add a second router whose observer operates on the first; sampling.", "§5 C11"),
    "C15": ("detsim", "deterministic simulation + ThreadSanitizer: T-flavour builds of the resource, pool and router harnesses; the simulator announces exactly the POSIX happens-before edges of the primitives it models, TSan's vector clocks decide",
            "Any ThreadSanitizer report in tulz code under the generated intended-use programs is a violation. TSan's verdict depends on happens-before, not on physical overlap, so each explored schedule stands for all schedules with the same synchronisation structure; the simulator's job is to reach worker start-up, expiry, shutdown and restart paths.",
            "Trusted: the simulator's happens-before announcements (mutex release->acquire, cond_wait as release+acquire, create, join); TSan's bounded shadow history; libstdc++ locale caches are pre-warmed.", "§5 C15"),
    "C18": ("detsim", "deterministic simulation of the environment: simulated directory stream (PRNG enumeration order, '.'/'..' anywhere, DT_UNKNOWN), drawn handle budget and cwd moved by nested DirectoryVisitors; generator manifest as oracle + handle conservation + string laws",
            "Generated directory trees on the real file system are queried through Path from changing working directories; answers are compared with the generator's manifest (not std::filesystem), open FILE*/DIR* handles must be conserved by every call, each DirectoryVisitor must restore the cwd current before its construction under arbitrary nesting, and the join/name/parent laws are checked on generated strings.",
            "Modest use of the family (stated in DESIGN.md): what the simulator adds is enumeration order, the handle budget and the global cwd; the string laws and most agreement checks are decided by generated inputs. No symlinks/special files; backslashes excluded.", "§5 C18"),
    "C20": ("detsim", "deterministic simulation: seeded schedule search that delays the first step of the new thread past the death of the launching frame; liveness registry of callable copies + AddressSanitizer stack-use-after-return",
            "Every callable kind x start path x lvalue argument list is launched from a frame that dies; the scheduler decides how late the child first runs; the callable instance invoked must be registered alive at entry and exit, invoked exactly once on another thread, isFinished()/join() only after it returned.",
            "Legs A (ASan fake stacks for use-after-return; pthread_create EAGAIN injected for callable paths with the oracle 'throws and nothing runs, or runs once intact') and T (atomic scheduling points; the owner reads a plain result after isFinished(), a TSan report there is owned by C20). Trusted: pthread/futex model; sampling.", "§5 C20"),
    "C12": ("detsim", "deterministic simulation: 'no reader parks without an outstanding writer' over histories + rendezvous batches that must not deadlock",
            "Two oracles: (a) a parked read request implies a write request outstanding in [issue, park]; (b) k readers queued behind a writer meet at a simulator barrier inside the critical section and the run must finish.",
            "Legs A and T. Trusted: pthread/futex model; barrier is simulator-native (adds no lock traffic); sampling.", "§5 C12"),
}

NOT_APPLICABLE = {
    "C04": "RingBuffer is a single-threaded container: a pure function of its operation history with no schedule, clock, I/O or callback for a simulator to control (DESIGN.md §6).",
    "C05": "Sequential Subject histories contain no schedule, fault or overlap; the overlapping (re-entrant) case is C10 (DESIGN.md §6).",
    "C06": "SubjectRouter matching is a pure function of (subscription history, pattern, arguments) used from one thread (DESIGN.md §6).",
    "C09": "Same object as C04: element lifetime is a pure function of the operation history; allocator behaviour is not quantified (DESIGN.md §6).",
    "C13": "shrink/exists/depth are pure functions of the history on one thread; their concurrent use is covered by C11 as far as atomicity goes (DESIGN.md §6).",
    "C14": "Array is a pure value container; nothing nondeterministic to simulate (DESIGN.md §6).",
    "C16": "Observable is a pure function of its assignment history (DESIGN.md §6).",
    "C17": "The only stream behaviours legal under the statement (short reads, buffer sizes) are absorbed by glibc below File; injected EIO/ENOSPC lie outside the statement; what remains is input generation (DESIGN.md §6).",
    "C19": "LocaleInfo::get is a pure function of one string (DESIGN.md §6).",
}
PENDING = {k: "not claimed yet: the check for this property is still being built in this session (see DESIGN.md §5); no verdict is offered"
           for k in ()}

def main():
    checks = []
    for pid in sorted(CLAIMED):
        eng, tech, text, note, ref = CLAIMED[pid]
        checks.append({
            "property_id": pid,
            "quick_cmd": "python3 tools/check.py %s quick" % pid,
            "thorough_cmd": "python3 tools/check.py %s thorough" % pid,
            "evidence_file": "/verif/evidence/%s.json" % pid,
            "replay_cmd_template": "python3 tools/check.py %s --replay {path}" % pid,
            "engine": eng,
            "level_claimed": {"category": "exploration", "text": text, "design_ref": "DESIGN.md " + ref},
            "level_note": note,
            "technique": tech,
        })
    na = [{"property_id": k, "reason": v} for k, v in sorted({**NOT_APPLICABLE, **PENDING}.items())]
    m = {
        "version": 1,
        "setup_cmd": "python3 tools/setup.py",
        "hooks": {
            "guard": "TULZ_VERIF",
            "enable": "tools/build.py compiles /repo/src/**/*.cpp with -DTULZ_VERIF -UNDEBUG plus a sanitizer; no tulz source reads the guard (all seams are symbol interposition in the harness executable)",
            "baseline_off_cmd": "tools/baseline_off.sh",
            "source_commits": [],
            "add_only": True,
        },
        "engines": [{
            "name": "detsim", "path": "sim/detsim.cpp",
            "serves_properties": sorted(CLAIMED),
            "kind_free_text": "deterministic simulator: real tulz code on real OS threads, one runnable at a time, every scheduling/fault decision from one seeded PRNG; pthread/clock/dir seams by symbol interposition; record/replay/minimise",
        }],
        "checks": checks,
        "not_applicable": na,
        "notes": "All claimed checks are seeded search (sampling). Exit 2 = machinery fault, nothing claimed. See DESIGN.md.",
    }
    with open(os.path.join(VERIF, "MANIFEST.json"), "w") as f:
        json.dump(m, f, indent=1)
    import jsonschema
    jsonschema.validate(m, json.load(open("/root/.vp/MANIFEST.schema.json")))
    ids = set(CLAIMED) | set(NOT_APPLICABLE) | set(PENDING)
    want = {json.loads(l)["id"] for l in open(os.path.join(VERIF, "properties.jsonl"))}
    assert ids == want, (want - ids, ids - want)
    print("MANIFEST ok:", len(checks), "checks,", len(na), "not applicable")

if __name__ == "__main__":
    main()
