#!/usr/bin/env python3
"""Writes /verif/MANIFEST.json from the tables below (single source of truth for what is claimed)."""
import json, os, sys
VERIF = os.path.dirname(os.path.dirname(os.path.abspath(__file__)))

CLAIMED = {
    # id: (harness / engine, technique, level text, level note, design ref)
    "C01": ("detsim", "deterministic simulation: seeded schedule search over generated lock programs, holder-count invariant checked at every acquisition",
            "Seeded search (sampling) over thread schedules of generated read/write lock programs running the real Resource code; every acquisition is checked against 'writers<=1 and not(writer and reader)'. Exploration is the right level: the property is quantified over schedules, the defect class is small-scope (<=3 threads), and each failure is an exactly replayable schedule.",
            "Trusted: pthread model of sim/detsim.cpp; interleavings at synchronisation-call granularity (all Resource state is under its mutex, so this loses nothing); sampling, not proof.", "§5 C01"),
    "C02": ("detsim", "deterministic simulation: scheduler-level deadlock detection (bounded liveness) + idle probe after quiescence, with and without injected spurious wake-ups",
            "Every generated program must run to completion under every sampled schedule (no runnable thread while a requester is parked = lost wake-up), and after all threads are joined the Resource must grant write, read, read without parking.",
            "Trusted: pthread model; spurious wake-ups are injected only in half of the runs because they can mask a lost notification; sampling.", "§5 C02"),
    "C03": ("detsim", "deterministic simulation: order rule over recorded issue/park/grant events of every sampled schedule",
            "History check: if request A was observed parked before request B was issued and they are not both reads, B is never granted before A. The premise uses scheduler-visible parking, so it does not depend on tie-breaking between truly concurrent calls.",
            "Trusted: pthread model; park = thread blocked in pthread_cond_wait inside lock*(); sampling.", "§5 C03"),
    "C12": ("detsim", "deterministic simulation: 'no reader parks without an outstanding writer' over histories + rendezvous batches that must not deadlock",
            "Two oracles: (a) a parked read request implies a write request outstanding in [issue, park]; (b) k readers queued behind a writer meet at a simulator barrier inside the critical section and the run must finish.",
            "Trusted: pthread model; barrier is simulator-native (adds no lock traffic); sampling.", "§5 C12"),
}

NOT_APPLICABLE = {
    "C04": "RingBuffer is a single-threaded container: a pure function of its operation history with no schedule, clock, I/O or callback for a simulator to control (DESIGN.md §6).",
    "C05": "Sequential Subject histories contain no schedule, fault or overlap; the overlapping (re-entrant) case is C10 (DESIGN.md §6).",
    "C06": "SubjectRouter matching is a pure function of (subscription history, pattern, arguments) used from one thread (DESIGN.md §6).",
    "C09": "Same object as C04: element lifetime is a pure function of the operation history; allocator behaviour is not quantified (DESIGN.md §6).",
    "C13": "shrink/exists/depth are pure functions of the history on one thread; their concurrent use is covered by C11 as far as atomicity goes (DESIGN.md §6).",
    "C14": "Array is a pure value container; nothing nondeterministic to simulate (DESIGN.md §6).",
    "C16": "Observable is a pure function of its assignment history (DESIGN.md §6).",
    "C17": "The only stream behaviours legal under the statement (short reads, buffer sizes) are absorbed by glibc below File; injected EIO/ENOSPC lie outside the statement; what remains is input generation (DESIGN.md §6).",
    "C19": "LocaleInfo::get is a pure function of one string (DESIGN.md §6).",
}
PENDING = {k: "not claimed yet: the check for this property is still being built in this session (see DESIGN.md §5); no verdict is offered"
           for k in ("C07", "C08", "C10", "C11", "C15", "C18", "C20")}

def main():
    checks = []
    for pid in sorted(CLAIMED):
        eng, tech, text, note, ref = CLAIMED[pid]
        checks.append({
            "property_id": pid,
            "quick_cmd": "python3 tools/check.py %s quick" % pid,
            "thorough_cmd": "python3 tools/check.py %s thorough" % pid,
            "evidence_file": "/verif/evidence/%s.json" % pid,
            "replay_cmd_template": "python3 tools/check.py %s --replay {path}" % pid,
            "engine": eng,
            "level_claimed": {"category": "exploration", "text": text, "design_ref": "DESIGN.md " + ref},
            "level_note": note,
            "technique": tech,
        })
    na = [{"property_id": k, "reason": v} for k, v in sorted({**NOT_APPLICABLE, **PENDING}.items())]
    m = {
        "version": 1,
        "setup_cmd": "python3 tools/setup.py",
        "hooks": {
            "guard": "TULZ_VERIF",
            "enable": "tools/build.py compiles /repo/src/**/*.cpp with -DTULZ_VERIF -UNDEBUG plus a sanitizer; no tulz source reads the guard (all seams are symbol interposition in the harness executable)",
            "baseline_off_cmd": "tools/baseline_off.sh",
            "source_commits": [],
            "add_only": True,
        },
        "engines": [{
            "name": "detsim", "path": "sim/detsim.cpp",
            "serves_properties": sorted(CLAIMED),
            "kind_free_text": "deterministic simulator: real tulz code on real OS threads, one runnable at a time, every scheduling/fault decision from one seeded PRNG; pthread/clock/dir seams by symbol interposition; record/replay/minimise",
        }],
        "checks": checks,
        "not_applicable": na,
        "notes": "All claimed checks are seeded search (sampling). Exit 2 = machinery fault, nothing claimed. See DESIGN.md.",
    }
    with open(os.path.join(VERIF, "MANIFEST.json"), "w") as f:
        json.dump(m, f, indent=1)
    import jsonschema
    jsonschema.validate(m, json.load(open("/root/.vp/MANIFEST.schema.json")))
    ids = set(CLAIMED) | set(NOT_APPLICABLE) | set(PENDING)
    want = {json.loads(l)["id"] for l in open(os.path.join(VERIF, "properties.jsonl"))}
    assert ids == want, (want - ids, ids - want)
    print("MANIFEST ok:", len(checks), "checks,", len(na), "not applicable")

if __name__ == "__main__":
    main()
