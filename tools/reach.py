#!/usr/bin/env python3
"""reach.py — which lines of the anchored tulz sources do the harnesses actually execute?  Builds every harness with gcov
instrumentation (flavour G, no sanitizer), runs a few thousand runs of each property's generator, and prints per-file line
coverage plus the never-executed lines.  Informational (measures reach of the workloads); not a check."""
import os, re, subprocess, sys, shutil, glob
sys.path.insert(0, os.path.dirname(os.path.abspath(__file__)))
import build as builder
builder.FLAVOURS["G"] = (["-O0", "-UNDEBUG", "--coverage"], ["-O1"], ["--coverage"])
RUNS = {"resource_sim": [("C01", 3000), ("C03", 2000), ("C12", 3000)], "pool_sim": [("C07", 3000), ("C08", 4000)], "thread_sim": [("C20", 3000)],
        "router_sim": [("C11", 3000)], "subject_sim": [("C10", 20000)], "path_sim": [("C18", 600)]}
ANCH = ["src/threading/rwp/Resource.cpp", "src/threading/ThreadPool.cpp", "src/threading/Thread.cpp", "include/tulz/threading/Thread.h", "include/tulz/threading/ThreadPool.h",
        "include/tulz/threading/rwp/ReadLock.h", "include/tulz/threading/rwp/WriteLock.h", "include/tulz/observer/Subject.h", "include/tulz/observer/Subscription.h",
        "include/tulz/observer/routing/ConcurrentSubjectRouter.h", "include/tulz/observer/routing/SubjectRouter.h", "src/observer/routing/SubjectRouter.cpp", "src/Path.cpp", "src/DirectoryVisitor.cpp"]
cov = {}   # file -> {line: count}
os.makedirs("/verif/work/reach", exist_ok=True)
for h, lst in RUNS.items():
    exe = builder.build(h, "G")
    bdir = os.path.dirname(exe)
    for prop, n in lst:
        subprocess.run([exe, "--prop", prop, "--seed", "7", "--loop", "--from", "0", "--to", str(n)], stdout=subprocess.DEVNULL, stderr=subprocess.DEVNULL, env=dict(os.environ, VERIF_WORK="/verif/work/reach"))
    # tulz objects live in the shared tulz-G-* dir, the harness object in bdir
    dirs = [bdir] + glob.glob(os.path.join(builder.BUILD, "tulz-G-*"))
    for d in dirs:
        for gcda in glob.glob(os.path.join(d, "*.gcda")):
            r = subprocess.run(["gcov", "-p", "-o", d, gcda], cwd=d, capture_output=True, text=True)
        for g in glob.glob(os.path.join(d, "*.gcov")):
            src = None
            for l in open(g, errors="replace"):
                m = re.match(r"\s*(-|#####|=====|\d+\*?):\s*(\d+):(.*)", l)
                if not m: continue
                if m.group(2) == "0":
                    sm = re.match(r"Source:(.*)", m.group(3))
                    if sm: src = os.path.relpath(os.path.realpath(os.path.join(d, sm.group(1))), "/repo") if sm.group(1).startswith("/") else sm.group(1)
                    continue
                if src is None or src not in ANCH: continue
                c = m.group(1)
                if c == "-": continue
                n = 0 if c in ("#####", "=====") else int(c.rstrip("*"))
                ln = int(m.group(2))
                cov.setdefault(src, {})
                cov[src][ln] = cov[src].get(ln, 0) + n
            os.unlink(g)
shutil.rmtree("/verif/work/reach", ignore_errors=True)
print("%-60s %s" % ("file", "executable lines executed"))
for f in ANCH:
    c = cov.get(f, {})
    if not c: print("%-60s (no data)" % f); continue
    hit = sum(1 for v in c.values() if v > 0)
    print("%-60s %d/%d" % (f, hit, len(c)))
    miss = sorted(l for l, v in c.items() if v == 0)
    if miss:
        src = open(os.path.join("/repo", f)).read().split("\n")
        for l in miss: print("      never executed %4d: %s" % (l, src[l - 1].strip()[:100]))
