#!/bin/bash
# Runs the repository's own test suite with the verification guard OFF (no -DTULZ_VERIF),
# in a scratch build directory outside /repo and /verif, and compares with BASELINE.json.
# usage: baseline_off.sh [repo-dir]
set -u
REPO=${1:-/repo}
B=$(mktemp -d /var/tmp/tulz-baseline.XXXXXX)
trap 'rm -rf "$B"' EXIT
cmake -G Ninja -S "$REPO" -B "$B" -DCMAKE_BUILD_TYPE=RelWithDebInfo -DCMAKE_CXX_FLAGS=-Wno-error \
  -DFETCHCONTENT_SOURCE_DIR_GOOGLETEST=/usr/src/googletest -DFETCHCONTENT_FULLY_DISCONNECTED=ON >"$B/cfg.log" 2>&1 \
  || { cat "$B/cfg.log"; echo "BASELINE: configure failed"; exit 2; }
cmake --build "$B" -j16 >"$B/build.log" 2>&1 || { tail -50 "$B/build.log"; echo "BASELINE: build failed"; exit 2; }
ctest --test-dir "$B" -j8 --timeout 900 --output-junit "$B/junit.xml" >"$B/ctest.log" 2>&1
# per-case results: run every gtest binary with xml output for case-level comparison
python3 - "$B" <<'PY'
import json,subprocess,sys,glob,os,xml.etree.ElementTree as ET
b=sys.argv[1]
base=json.load(open('/root/.vp/BASELINE.json'))
want=set(base['stable_pass'])
got={}
for exe in sorted(glob.glob(os.path.join(b,'bin','*'))+glob.glob(os.path.join(b,'tests','*Test'))):
    if not os.access(exe,os.X_OK) or os.path.isdir(exe): continue
    name=os.path.basename(exe)
    flt='--gtest_filter=-ResourceTest.SimulaneousReadBlockingWrite'
    x=os.path.join(b,name+'.xml')
    r=subprocess.run([exe,flt,'--gtest_output=xml:'+x],capture_output=True,text=True,timeout=900)
    if not os.path.exists(x): continue
    for ts in ET.parse(x).getroot().iter('testsuite'):
        ok_all=True
        for tc in ts.iter('testcase'):
            ok=(tc.find('failure') is None)
            got[ts.get('name')+'::'+tc.get('name')]=ok
            ok_all&=ok
    got[name+'::'+name]=(r.returncode==0)
missing=sorted(t for t in want if not got.get(t,False))
print("BASELINE: %d/%d stable tests pass"%(len(want)-len(missing),len(want)))
if missing:
    print("BASELINE: failing/missing:",missing); sys.exit(1)
PY
