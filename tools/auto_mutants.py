#!/usr/bin/env python3
"""auto_mutants.py [--limit N] [--files substr,substr] [--scale 0.5] [--out FILE]

Systematic first-order mutants of the tulz sources the claimed properties are anchored in (relational / logical operator
flips, off-by-one, statement deletion, notify_one<->notify_all, ReadLock<->WriteLock, front<->back ...).  Each mutant is
applied to a scratch worktree of /repo HEAD under /var/tmp (never to /repo), the quick tier of the checks that own the
file is run against it, and for mutants that survive every check the repository's own 60 tests are run too.
Output: one JSON line per mutant; survivors of both are the interesting ones (equivalent mutant or blind spot)."""
import json, os, re, shutil, subprocess, sys, tempfile, time
VERIF = os.path.dirname(os.path.dirname(os.path.abspath(__file__)))

FILES = {
    "src/threading/rwp/Resource.cpp": ["C01", "C02", "C03", "C12"],
    "include/tulz/threading/rwp/ReadLock.h": ["C01", "C12", "C11"],
    "include/tulz/threading/rwp/WriteLock.h": ["C01", "C11"],
    "src/threading/ThreadPool.cpp": ["C07", "C08", "C15"],
    "src/threading/Thread.cpp": ["C20", "C07"],
    "include/tulz/threading/Thread.h": ["C20"],
    "include/tulz/observer/Subject.h": ["C10"],
    "include/tulz/observer/routing/ConcurrentSubjectRouter.h": ["C11", "C15"],
    "src/Path.cpp": ["C18"],
    # lower layers the claimed properties build on
    "include/tulz/observer/routing/SubjectRouter.h": ["C11"],
    "src/observer/routing/SubjectRouter.cpp": ["C11"],
    "src/observer/routing/RoutingLevelView.cpp": ["C11"],
    "include/tulz/observer/Subscription.h": ["C10", "C11"],
    "include/tulz/observer/Observer.h": ["C10"],
    "include/tulz/observer/EternalObserver.h": ["C10"],
    "include/tulz/observer/USubscription.h": ["C11"],
    "include/tulz/observer/detail/ObserverFactory.h": ["C10"],
    "src/DirectoryVisitor.cpp": ["C18"],
}

OPS = [
    (r" < ", " <= "), (r" <= ", " < "), (r" > ", " >= "), (r" >= ", " > "), (r" == ", " != "), (r" != ", " == "),
    (r" && ", " || "), (r" \|\| ", " && "),
    (r"\+\+", "--"), (r"--(?!-)", "++"), (r" \+ 1\b", " - 1"), (r" - 1\b", " + 1"), (r" - 2\b", " - 1"), (r" \+ 1\b", ""),
    (r"notify_all", "notify_one"), (r"notify_one", "notify_all"),
    (r"ReadLock lock", "WriteLock lock"), (r"WriteLock lock", "ReadLock lock"),
    (r"\.front\(\)", ".back()"), (r"pop_front", "pop_back"), (r"emplace_back", "emplace_front"), (r"emplace_front", "emplace_back"),
    (r"\btrue\b", "false"), (r"\bfalse\b", "true"),
    (r"lockRead\(\)", "lockWrite()"), (r"unlockRead\(\)", "unlockWrite()"), (r"lockWrite\(\)", "lockRead()"), (r"unlockWrite\(\)", "unlockRead()"),
    (r"OpType::Read\b", "OpType::Write"), (r"OpType::Write\b", "OpType::Read"),
    (r"if \(!", "if ("), (r"return !", "return "),
]
# statement deletion: whole line that is a plain call / assignment statement
DELETABLE = re.compile(r"^\s*(?!return|break|continue|case|default|using|typedef|#|//|\}|\{)[A-Za-z_][\w:\.\->\[\]\(\)\*&<>, \"\\/%\+\-=!]*;\s*$")


def code_lines(path, text):
    out = []
    in_win = False
    for i, l in enumerate(text.split("\n")):
        st = l.strip()
        if st.startswith("#elif defined(_WIN32)") or st.startswith("#if defined(_WIN32)"):
            in_win = True
        elif st.startswith("#endif") or st.startswith("#if defined(__linux__)") or st.startswith("#ifdef __linux__"):
            in_win = False
        if in_win or st.startswith("//") or st.startswith("*") or st.startswith("/*") or st.startswith("#") or not st:
            continue
        out.append(i)
    return out


def gen_mutants(repo):
    muts = []
    for rel in FILES:
        text = open(os.path.join(repo, rel)).read()
        lines = text.split("\n")
        for i in code_lines(rel, text):
            l = lines[i]
            if "assert(" in l or "template" in l or "#include" in l or "operator" in l:
                continue
            for pat, rep in OPS:
                for m in re.finditer(pat, l):
                    if pat in (r" < ", r" > ") and ("<" in l.replace(" < ", "") and ">" in l and "template" in text[:0]):
                        pass
                    nl = l[:m.start()] + rep + l[m.end():]
                    if nl != l:
                        muts.append({"file": rel, "line": i + 1, "op": "%s -> %s" % (pat, rep), "old": l.strip(), "new": nl.strip(), "_nl": nl})
            if DELETABLE.match(l) and not l.strip().startswith("std::") and "=" not in l.split("(")[0]:
                muts.append({"file": rel, "line": i + 1, "op": "delete statement", "old": l.strip(), "new": "", "_nl": re.match(r"^\s*", l).group(0) + ";"})
    # de-duplicate
    seen, out = set(), []
    for m in muts:
        k = (m["file"], m["line"], m["_nl"])
        if k not in seen:
            seen.add(k)
            out.append(m)
    return out


def sh(cmd, **kw):
    return subprocess.run(cmd, capture_output=True, text=True, **kw)


def main():
    opts = dict(a[2:].split("=", 1) for a in sys.argv[1:] if a.startswith("--") and "=" in a)
    limit = int(opts.get("limit", "100000"))
    scale = opts.get("scale", "0.5")
    out = opts.get("out", os.path.join(VERIF, "mutants", "auto_results.jsonl"))
    only = opts.get("files", "").split(",") if opts.get("files") else None
    done = set()
    if os.path.exists(out):
        for l in open(out):
            try:
                j = json.loads(l)
                done.add((j["file"], j["line"], j["new"], j["op"]))
            except Exception:
                pass
    muts = gen_mutants("/repo")
    if only:
        muts = [m for m in muts if any(o in m["file"] for o in only)]
    print("%d candidate mutants (%d already done)" % (len(muts), len(done)), flush=True)
    n = 0
    if True:   # (check.py writes evidence only for runs against /repo itself)
        for m in muts:
            if (m["file"], m["line"], m["new"], m["op"]) in done:
                continue
            if n >= limit:
                break
            n += 1
            d = tempfile.mkdtemp(prefix="tulz-auto.", dir="/var/tmp")
            os.rmdir(d)
            subprocess.check_call(["git", "-C", "/repo", "worktree", "add", "-q", "--detach", d, "HEAD"])
            rec = {k: v for k, v in m.items() if not k.startswith("_")}
            try:
                p = os.path.join(d, m["file"])
                lines = open(p).read().split("\n")
                lines[m["line"] - 1] = m["_nl"]
                open(p, "w").write("\n".join(lines))
                res, killed = {}, None
                for prop in FILES[m["file"]]:
                    t0 = time.time()
                    r = sh(["python3", os.path.join(VERIF, "tools", "check.py"), prop, "quick"], env=dict(os.environ, TULZ_REPO=d, VERIF_RUNS_SCALE=scale, VERIF_ONLY_FLAVOURS=opts.get("flavours", "A")))
                    cls = re.search(r"^  class=(.*?) program=", r.stdout, re.M)
                    if r.returncode == 1 and "VIOLATION" in r.stdout:
                        res[prop] = "caught:" + (cls.group(1) if cls else "?")
                        killed = prop
                        break
                    elif r.returncode == 0:
                        res[prop] = "silent"
                    elif "BUILD FAILED" in r.stderr:
                        res[prop] = "does-not-compile"
                        killed = "compiler"
                        break
                    else:
                        res[prop] = "exit%d:%s" % (r.returncode, (r.stdout + r.stderr)[-200:].replace("\n", " "))
                rec["checks"] = res
                if killed is None:
                    b = sh([os.path.join(VERIF, "tools", "baseline_off.sh"), d], timeout=1800)
                    rec["existing_tests"] = "pass" if b.returncode == 0 else "FAIL"
                    rec["status"] = "SURVIVED-ALL" if b.returncode == 0 else "killed-by-existing-tests-only"
                else:
                    rec["status"] = "killed-by-" + killed
            finally:
                subprocess.call(["git", "-C", "/repo", "worktree", "remove", "--force", d])
                shutil.rmtree(d, ignore_errors=True)
            with open(out, "a") as f:
                f.write(json.dumps(rec) + "\n")
            print("%s:%d [%s] %s  ==> %s %s" % (m["file"], m["line"], m["op"], m["old"][:60], rec["status"], rec.get("checks")), flush=True)


if __name__ == "__main__":
    main()
