#!/bin/bash
# usage: with_patch.sh <patch.diff> <command...>   — runs the command with TULZ_REPO pointing at a scratch worktree of /repo with the patch applied
set -e
P=$(realpath "$1"); shift
D=$(mktemp -d /var/tmp/tulz-mut.XXXXXX)
rmdir "$D"
git -C /repo worktree add -q --detach "$D" HEAD
trap 'git -C /repo worktree remove --force "$D" >/dev/null 2>&1; rm -rf "$D"' EXIT
git -C "$D" apply "$P"
TULZ_REPO="$D" "$@"
