#!/usr/bin/env python3
"""rerun_seeded.py [id-prefix ...]  — re-runs the quick checks named in every seeded/<id>/meta.json against the current
machinery (patch applied to a scratch worktree of /repo HEAD under /var/tmp) and rewrites check_results in meta.json."""
import json, os, re, shutil, subprocess, sys, tempfile, time, glob
VERIF = os.path.dirname(os.path.dirname(os.path.abspath(__file__)))
def sh(cmd, **kw): return subprocess.run(cmd, capture_output=True, text=True, **kw)
def main():
    pref = sys.argv[1:]
    if True:   # (check.py writes evidence only for runs against /repo itself)
        for mf in sorted(glob.glob(os.path.join(VERIF, "seeded", "*", "meta.json"))):
            m = json.load(open(mf)); sid = m["seeded_id"]
            if pref and not any(sid.startswith(p) for p in pref): continue
            d = tempfile.mkdtemp(prefix="tulz-seed.", dir="/var/tmp"); os.rmdir(d)
            subprocess.check_call(["git", "-C", "/repo", "worktree", "add", "-q", "--detach", d, "HEAD"])
            try:
                if sh(["git", "-C", d, "apply", os.path.join(os.path.dirname(mf), "patch.diff")]).returncode != 0:
                    print(sid, "PATCH DOES NOT APPLY"); continue
                res = {}
                for p in m.get("check_results", {}):
                    t0 = time.time()
                    r = sh(["python3", os.path.join(VERIF, "tools", "check.py"), p, "quick"], env=dict(os.environ, TULZ_REPO=d))
                    mm = re.search(r"^  class=(.*?) program=\[(.*)\]$", r.stdout, re.M)
                    res[p] = {"exit": r.returncode, "seconds": round(time.time() - t0, 1),
                              "verdict": "caught" if r.returncode == 1 and "VIOLATION" in r.stdout else "missed" if r.returncode == 0 else "machinery-fault",
                              "class": mm.group(1) if mm else None, "minimised_program": mm.group(2) if mm else None,
                              "tail": r.stdout.strip().splitlines()[-1][:300] if r.stdout.strip() else r.stderr[-300:]}
                m["check_results"] = res
                m["checks_rerun_at"] = time.strftime("%Y-%m-%d %H:%M:%S")
                m["verif_commit_at_rerun"] = sh(["git", "-C", VERIF, "rev-parse", "--short", "HEAD"]).stdout.strip()
                json.dump(m, open(mf, "w"), indent=1)
                print(sid, {p: (r["verdict"], r["class"]) for p, r in res.items()}, flush=True)
            finally:
                subprocess.call(["git", "-C", "/repo", "worktree", "remove", "--force", d]); shutil.rmtree(d, ignore_errors=True)
if __name__ == "__main__":
    main()
