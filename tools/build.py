#!/usr/bin/env python3
"""Builds a harness executable from /repo's CURRENT working tree (+ /verif/sim, /verif/harness).

Objects are cached under /verif/build/ keyed by the SHA-256 of every input (sources, headers, flags), so an
edited /repo always triggers a rebuild and an unchanged one costs a few milliseconds.
"""
import concurrent.futures
import fcntl
import hashlib
import os
import shutil
import subprocess
import sys
import time

VERIF = os.path.dirname(os.path.dirname(os.path.abspath(__file__)))
REPO = os.environ.get("TULZ_REPO", "/repo")
BUILD = os.path.join(VERIF, "build")
CXX = os.environ.get("VERIF_CXX", "g++")
GUARD = "TULZ_VERIF"

COMMON = ["-std=c++20", "-g", "-fno-omit-frame-pointer", "-D" + GUARD, "-Wno-deprecated-declarations", "-w"]
FLAVOURS = {
    # R = "as released": the library's own RelWithDebInfo semantics (-O2 -DNDEBUG: tulz asserts compiled out) + ASan, so that
    # the harness oracles — not tulz' internal assertions — have to notice a violation
    # name: (flags for tulz + harness, flags for the simulator TU, link flags)
    "A": (["-O1", "-UNDEBUG", "-fsanitize=address"], ["-O1", "-fsanitize=address"], ["-fsanitize=address"]),
    "T": (["-O1", "-UNDEBUG", "-fsanitize=thread"], ["-O1"], ["-fsanitize=thread"]),
    "R": (["-O2", "-DNDEBUG", "-fsanitize=address"], ["-O1", "-fsanitize=address"], ["-fsanitize=address"]),
    "N": (["-O1", "-UNDEBUG"], ["-O1"], []),
}


def repo_sources():
    out = []
    for root, _dirs, files in os.walk(os.path.join(REPO, "src")):
        for f in sorted(files):
            if f.endswith(".cpp"):
                out.append(os.path.join(root, f))
    return sorted(out)


def tree_files(top, exts):
    out = []
    for root, _dirs, files in os.walk(top):
        for f in sorted(files):
            if f.endswith(exts):
                out.append(os.path.join(root, f))
    return sorted(out)


def digest(paths, extra):
    h = hashlib.sha256()
    for p in paths:
        h.update(p.encode())
        with open(p, "rb") as f:
            h.update(hashlib.sha256(f.read()).digest())
    h.update(repr(extra).encode())
    return h.hexdigest()[:20]


def run(cmd):
    r = subprocess.run(cmd, capture_output=True, text=True)
    if r.returncode != 0:
        sys.stderr.write("BUILD FAILED: %s\n%s\n%s\n" % (" ".join(cmd), r.stdout[-4000:], r.stderr[-8000:]))
        raise SystemExit(2)


def gc_cache(keep):
    """remove old cache directories (disk is limited); keep the most recently used `keep` per prefix"""
    try:
        ents = [e for e in os.listdir(BUILD) if os.path.isdir(os.path.join(BUILD, e)) and "-" in e]
    except FileNotFoundError:
        return
    groups = {}
    for e in ents:
        groups.setdefault(e.rsplit("-", 1)[0], []).append(e)
    for _pre, lst in groups.items():
        lst.sort(key=lambda e: os.path.getmtime(os.path.join(BUILD, e)), reverse=True)
        for e in lst[keep:]:
            shutil.rmtree(os.path.join(BUILD, e), ignore_errors=True)


def build(harness, flavour):
    """returns the path of the executable"""
    t0 = time.time()
    fl, fl_sim, fl_link = FLAVOURS[flavour]
    os.makedirs(BUILD, exist_ok=True)
    srcs = repo_sources()
    hdrs = tree_files(os.path.join(REPO, "include"), (".h", ".hpp"))
    inc = ["-I" + os.path.join(REPO, "include")]
    key_tulz = digest(srcs + hdrs, (CXX, COMMON, fl))
    sim_files = tree_files(os.path.join(VERIF, "sim"), (".cpp", ".h"))
    hfile = os.path.join(VERIF, "harness", harness + ".cpp")
    hdeps = tree_files(os.path.join(VERIF, "harness"), (".h",))
    key_bin = digest([hfile] + hdeps + sim_files, (key_tulz, fl_sim, fl_link))
    bindir = os.path.join(BUILD, "%s-%s-%s" % (harness, flavour, key_bin))
    exe = os.path.join(bindir, harness)
    lockf = open(os.path.join(BUILD, ".lock-%s-%s" % (harness, flavour)), "w")
    fcntl.flock(lockf, fcntl.LOCK_EX)
    try:
        if os.path.exists(exe):
            os.utime(bindir)
            return exe
        # --- tulz objects (shared by all harnesses of this flavour)
        tdir = os.path.join(BUILD, "tulz-%s-%s" % (flavour, key_tulz))
        tlock = open(os.path.join(BUILD, ".lock-tulz-%s" % flavour), "w")
        fcntl.flock(tlock, fcntl.LOCK_EX)
        try:
            lib = os.path.join(tdir, "libtulz.a")
            if not os.path.exists(lib):
                shutil.rmtree(tdir, ignore_errors=True)
                os.makedirs(tdir)
                jobs = []
                objs = []
                for i, s in enumerate(srcs):
                    o = os.path.join(tdir, "%02d_%s.o" % (i, os.path.basename(s)[:-4]))
                    objs.append(o)
                    jobs.append([CXX] + COMMON + fl + inc + ["-c", s, "-o", o])
                with concurrent.futures.ThreadPoolExecutor(max_workers=16) as ex:
                    list(ex.map(run, jobs))
                run(["ar", "rcs", lib + ".tmp"] + objs)
                os.rename(lib + ".tmp", lib)
            else:
                os.utime(tdir)
        finally:
            fcntl.flock(tlock, fcntl.LOCK_UN)
        # --- simulator + harness
        shutil.rmtree(bindir, ignore_errors=True)
        os.makedirs(bindir)
        jobs = []
        objs = []
        for s in [f for f in sim_files if f.endswith(".cpp")]:
            o = os.path.join(bindir, "sim_" + os.path.basename(s)[:-4] + ".o")
            objs.append(o)
            jobs.append([CXX] + COMMON + fl_sim + ["-c", s, "-o", o])
        ho = os.path.join(bindir, harness + ".o")
        objs.append(ho)
        jobs.append([CXX] + COMMON + fl + inc + ["-I" + VERIF, "-DVERIF_FLAVOUR_" + flavour, "-c", hfile, "-o", ho])
        with concurrent.futures.ThreadPoolExecutor(max_workers=16) as ex:
            list(ex.map(run, jobs))
        run([CXX] + fl_link + objs + [lib, "-o", exe + ".tmp", "-rdynamic", "-ldl", "-pthread"])
        os.rename(exe + ".tmp", exe)
        gc_cache(3)
        sys.stderr.write("[build] %s flavour %s built in %.1fs\n" % (harness, flavour, time.time() - t0))
        return exe
    finally:
        fcntl.flock(lockf, fcntl.LOCK_UN)


if __name__ == "__main__":
    print(build(sys.argv[1], sys.argv[2] if len(sys.argv) > 2 else "A"))
