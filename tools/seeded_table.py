#!/usr/bin/env python3
"""Prints the markdown table of /verif/seeded/*/meta.json (which check caught which independently seeded change)."""
import json, glob, os
rows = []
for f in sorted(glob.glob(os.path.join(os.path.dirname(os.path.dirname(os.path.abspath(__file__))), "seeded", "*", "meta.json"))):
    m = json.load(open(f))
    res = []
    for p, r in m.get("check_results", {}).items():
        res.append("%s: **%s**%s" % (p, r["verdict"], (" (`%s`)" % r["class"][:70]) if r.get("class") else ""))
    rows.append("| `%s` | %s | %s | %s |" % (m["seeded_id"], m["breaks_property"], m.get("needs_to_manifest", "")[:160], "; ".join(res)))
print("| seeded change | breaks | needs, in order to manifest | quick checks run against it |")
print("|---|---|---|---|")
print("\n".join(rows))
