// detsim — deterministic simulation of a multi-threaded C++ program on real OS threads.
// Exactly one simulated thread runs at a time; every scheduling and fault decision comes from
// one PRNG (or from a recorded script on replay). See DESIGN.md §3.
#pragma once
#include <cstdint>
#include <functional>
#include <string>
#include <vector>

namespace sim {

// ---------------------------------------------------------------- PRNG (splitmix64 / xoshiro-lite)
uint64_t mix(uint64_t a, uint64_t b);
struct Rng {
    uint64_t s;
    explicit Rng(uint64_t seed = 1) : s(seed ? seed : 0x9E3779B97F4A7C15ull) {}
    uint64_t next();
    uint32_t below(uint32_t n) { return n ? (uint32_t)(next() % n) : 0; }
    int range(int lo, int hi) { return lo + (int)below((uint32_t)(hi - lo + 1)); }  // inclusive
    double unit() { return (next() >> 11) * (1.0 / 9007199254740992.0); }
    bool chance(double p) { return p > 0 && unit() < p; }
};

// ---------------------------------------------------------------- configuration of one run
enum Strategy { UNIFORM = 0, STICKY = 1, PCT = 2, STARVE = 3 };

struct Decision {
    char kind;     // 'S' schedule, 'P' spurious wake, 'W' signal target, 'J' clock jump, 'H' harness choice, 'F' injected call failure
    int32_t val;   // S: thread id (-1 = default policy), P: thread id or -1, W: waiter index, J: delta ms, H: choice
};

struct Config {
    uint64_t sched_seed = 1;
    int strategy = UNIFORM;
    double sticky_p = 0.8;        // STICKY
    int pct_depth = 2;            // PCT: number of priority change points
    int len_guess = 300;          // PCT / STARVE: guess of the run length in steps
    int starve_victims = 1;       // STARVE
    int starve_window = 60;
    double spurious_rate = 0.0;   // probability per scheduling point that one condvar waiter wakes spuriously
    bool random_signal = false;   // pthread_cond_signal wakes a PRNG-chosen waiter (else the longest waiting)
    double clock_jump_rate = 0.0; // probability per scheduling point of a wall-clock jump
    int64_t clock_jump_ms = 0;    // magnitude of a jump (sign is drawn)
    double create_fail_rate = 0.0; // probability that pthread_create fails with EAGAIN (only harnesses whose oracle allows for it)
    int clock_step_max_ms = 2;    // per scheduling point the clock advances U[0,max] ms
    int step_cap = 20000;
    bool atomic_points = true;    // T-flavour only: every instrumented std::atomic operation of tulz/harness code is a scheduling point
    bool post_op_points = true;   // scheduling point also right after lock / unlock / wait-return / signal (not only before)
    bool replay = false;          // follow `script` instead of drawing
    std::vector<Decision> script;
};

// ---------------------------------------------------------------- events
// One global, totally ordered log per run. Kinds < 100 are produced by the simulator.
enum : int {
    EV_CREATE = 1,     // a = new thread id
    EV_START = 2,      // thread first runs
    EV_EXIT = 3,       // thread function returned
    EV_PARK = 4,       // thread blocks in cond_wait; a = its tag, b = condvar index
    EV_WAKE = 5,       // a = woken thread, b = 0 signal/broadcast, 1 spurious
    EV_MBLOCK = 6,     // thread blocks on a mutex; a = tag
    EV_JOINBLOCK = 7,  // a = target thread
    EV_SIGNAL = 8,     // a = number of waiters, b = 0 signal / 1 broadcast
    EV_CLOCKJUMP = 9,  // a = delta ms
    EV_SLEEP = 10,     // a = ms
    EV_FUTEX_WAIT = 11,  // thread blocks in futex(FUTEX_WAIT) (std::atomic::wait, semaphores, latches ...); a = tag
    EV_FUTEX_WAKE = 12,  // a = number of threads woken
};
struct Event {
    uint32_t seq;
    int16_t tid;
    int16_t kind;
    int32_t a, b;
};

enum ThreadState { T_RUNNABLE, T_BLK_MUTEX, T_BLK_COND, T_BLK_JOIN, T_BLK_PRED, T_SLEEPING, T_DONE, T_BLK_FUTEX };
struct ThreadInfo {
    int id;
    ThreadState state;
    int tag;
    bool started;
};

struct Stats {
    uint32_t steps = 0;           // scheduling points
    uint32_t choice_points = 0;   // scheduling points with >= 2 enabled threads
    uint32_t switches = 0;        // context switches
    uint32_t threads = 0;
    uint32_t spurious = 0, signal_choices = 0, clock_jumps = 0, late_starts = 0, starved_steps = 0;
    uint32_t mutex_contended = 0, cond_parks = 0, atomic_points = 0, create_failures = 0;
    int64_t sim_ms = 0;
    uint64_t sched_hash = 0;      // hash of all decisions
    uint64_t event_hash = 0;      // hash of all events
    uint32_t harness_nontrivial = 0;  // set by the harness through note_nontrivial()
    bool diverged = false;        // replay only: the script became infeasible / misaligned
};

// ---------------------------------------------------------------- running
// Runs `body` as simulated thread 0 on the calling OS thread. Returns when body has returned and every
// simulated thread is done. A violation / deadlock / step cap does not return (see set_fatal_sink).
void run(const Config& cfg, const std::function<void()>& body);
bool active();                      // is the calling OS thread a simulated thread of a running simulation

const Stats& stats();
const std::vector<Decision>& decisions();   // decisions of the current / last run (recorded always)
const std::vector<Event>& events();

// Fatal outcomes. kind: "violation", "deadlock", "stepcap". The sink must not return.
struct Fatal {
    std::string kind, vclass, detail;
};
void set_fatal_sink(std::function<void(const Fatal&)> sink);
// Stream every decision to this file descriptor as it is made (so that a run killed by a sanitizer still leaves its script).
void set_decision_fd(int fd);
// Called on deadlock to let the harness classify it; returns the violation class (empty = "deadlock").
void set_deadlock_classifier(std::function<std::string(const std::vector<ThreadInfo>&)> f);
[[noreturn]] void violation(const std::string& vclass, const std::string& detail);

// ---------------------------------------------------------------- API for harness code running inside a simulation
int self();                          // simulated thread id (0 = controller), -1 outside
void yield();                        // plain scheduling point
void atomic_point();                 // scheduling point before an instrumented atomic operation (sim/tsan_atomics.cpp)
void yield_poll();                   // scheduling point; the caller is not scheduled again before another thread has run
void wait_until(const std::function<bool()>& pred);  // block until pred() (evaluated by the scheduler; must be pure)
void set_tag(int tag);               // annotate "what this thread is doing" (copied into EV_PARK / EV_MBLOCK)
int tag();
void ev(int kind, int a = 0, int b = 0);
uint32_t seqno();                    // sequence number the next event will get
int choose(int n, int dflt = 0);     // harness-level decision in [0,n); recorded as 'H'; dflt used by minimised scripts
int64_t now_ms();                    // simulated wall clock (ms since epoch)
void note_nontrivial();              // harness: this run exercised what its non-triviality rule asks for
std::vector<ThreadInfo> threads();
ThreadInfo thread_info(int tid);
int thread_count();

// RAII: accesses inside are invisible to ThreadSanitizer (harness-side shared monitor state). No-op elsewhere.
struct Untracked {
    Untracked();
    ~Untracked();
};

// Simulator-native barrier (adds no mutex/condvar traffic to the schedule space).
struct Barrier {
    explicit Barrier(int n) : need(n) {}
    void arrive_and_wait();
    int need;
    int arrived = 0;
};

// Counters for "this rare condition was hit" probes; process-wide, reset by the caller.
void probe(int id, uint32_t n = 1);
extern uint64_t g_probes[64];

// Directory-stream simulation (path_sim): when enabled, opendir/readdir serve a shuffled snapshot.
struct DirSimConfig {
    bool enabled = false;
    double unknown_dtype_rate = 0.0;
    std::string root;   // only directories at or below this (lexically normalised) path are simulated; anything else the code
                        // under test wanders into (e.g. through "..") is served by the real libc without decisions or events
};
void set_dirsim(const DirSimConfig&);
int open_handles();                  // DIR* + FILE* currently open via interposed calls (process-wide)
struct DirSimStats { uint64_t streams = 0, entries = 0, unknown_dtype = 0, reordered_streams = 0; };
DirSimStats dirsim_stats();          // cumulative, process-wide (for evidence: how often each environment behaviour was served)
void reset_handle_count();

}  // namespace sim
