// Minimal JSON value (null, bool, int64, double, string, array, object with insertion order). Enough for replay files.
#pragma once
#include <cstdint>
#include <cstdio>
#include <cstdlib>
#include <cstring>
#include <stdexcept>
#include <string>
#include <utility>
#include <vector>

struct Json {
    enum Type { NUL, BOOL, INT, DBL, STR, ARR, OBJ } type = NUL;
    bool b = false;
    int64_t i = 0;
    double d = 0;
    std::string s;
    std::vector<Json> a;
    std::vector<std::pair<std::string, Json>> o;

    Json() = default;
    Json(bool v) : type(BOOL), b(v) {}
    Json(int v) : type(INT), i(v) {}
    Json(unsigned v) : type(INT), i(v) {}
    Json(int64_t v) : type(INT), i(v) {}
    Json(uint64_t v) : type(INT), i((int64_t)v) {}
    Json(double v) : type(DBL), d(v) {}
    Json(const char* v) : type(STR), s(v) {}
    Json(const std::string& v) : type(STR), s(v) {}
    static Json array() { Json j; j.type = ARR; return j; }
    static Json object() { Json j; j.type = OBJ; return j; }

    Json& push(Json v) { type = ARR; a.push_back(std::move(v)); return *this; }
    Json& set(const std::string& k, Json v) {
        type = OBJ;
        for (auto& kv : o) if (kv.first == k) { kv.second = std::move(v); return *this; }
        o.emplace_back(k, std::move(v));
        return *this;
    }
    bool has(const std::string& k) const { for (auto& kv : o) if (kv.first == k) return true; return false; }
    const Json& at(const std::string& k) const {
        for (auto& kv : o) if (kv.first == k) return kv.second;
        throw std::runtime_error("json: missing key " + k);
    }
    Json& at(const std::string& k) {
        for (auto& kv : o) if (kv.first == k) return kv.second;
        throw std::runtime_error("json: missing key " + k);
    }
    const Json& operator[](size_t n) const { return a.at(n); }
    Json& operator[](size_t n) { return a.at(n); }
    size_t size() const { return type == ARR ? a.size() : o.size(); }
    int64_t num() const { return type == DBL ? (int64_t)d : i; }
    double real() const { return type == DBL ? d : (double)i; }
    int64_t get(const std::string& k, int64_t dflt) const { return has(k) ? at(k).num() : dflt; }
    double getd(const std::string& k, double dflt) const { return has(k) ? at(k).real() : dflt; }
    std::string gets(const std::string& k, const std::string& dflt) const { return has(k) ? at(k).s : dflt; }

    static void esc(std::string& out, const std::string& v) {
        out += '"';
        for (unsigned char c : v) {
            if (c == '"') out += "\\\"";
            else if (c == '\\') out += "\\\\";
            else if (c == '\n') out += "\\n";
            else if (c == '\t') out += "\\t";
            else if (c < 0x20 || c >= 0x7f) { char buf[8]; snprintf(buf, sizeof buf, "\\u%04x", c); out += buf; }
            else out += (char)c;
        }
        out += '"';
    }
    void dump(std::string& out) const {
        switch (type) {
            case NUL: out += "null"; break;
            case BOOL: out += b ? "true" : "false"; break;
            case INT: out += std::to_string(i); break;
            case DBL: { char buf[40]; snprintf(buf, sizeof buf, "%.17g", d); out += buf; if (!strpbrk(buf, ".eEn")) out += ".0"; break; }
            case STR: esc(out, s); break;
            case ARR: {
                out += '[';
                for (size_t k = 0; k < a.size(); k++) { if (k) out += ','; a[k].dump(out); }
                out += ']';
                break;
            }
            case OBJ: {
                out += '{';
                for (size_t k = 0; k < o.size(); k++) { if (k) out += ','; esc(out, o[k].first); out += ':'; o[k].second.dump(out); }
                out += '}';
                break;
            }
        }
    }
    std::string dump() const { std::string r; dump(r); return r; }

    // ---- parser
    struct P {
        const char* p; const char* e;
        void ws() { while (p < e && (*p == ' ' || *p == '\n' || *p == '\t' || *p == '\r')) p++; }
        [[noreturn]] void fail(const char* m) { throw std::runtime_error(std::string("json parse: ") + m); }
        Json val() {
            ws();
            if (p >= e) fail("eof");
            if (*p == '{') {
                p++; Json j = Json::object(); ws();
                if (p < e && *p == '}') { p++; return j; }
                for (;;) {
                    ws(); Json k = str(); ws();
                    if (p >= e || *p != ':') fail("colon"); p++;
                    j.o.emplace_back(k.s, val()); ws();
                    if (p < e && *p == ',') { p++; continue; }
                    if (p < e && *p == '}') { p++; return j; }
                    fail("object");
                }
            }
            if (*p == '[') {
                p++; Json j = Json::array(); ws();
                if (p < e && *p == ']') { p++; return j; }
                for (;;) {
                    j.a.push_back(val()); ws();
                    if (p < e && *p == ',') { p++; continue; }
                    if (p < e && *p == ']') { p++; return j; }
                    fail("array");
                }
            }
            if (*p == '"') return str();
            if (!strncmp(p, "true", 4)) { p += 4; return Json(true); }
            if (!strncmp(p, "false", 5)) { p += 5; return Json(false); }
            if (!strncmp(p, "null", 4)) { p += 4; return Json(); }
            char* end; bool isd = false;
            for (const char* q = p; q < e && (isdigit((unsigned char)*q) || strchr("+-.eE", *q)); q++) if (strchr(".eE", *q)) isd = true;
            if (isd) { double v = strtod(p, &end); if (end == p) fail("number"); p = end; return Json(v); }
            long long v = strtoll(p, &end, 10); if (end == p) fail("number"); p = end; return Json((int64_t)v);
        }
        Json str() {
            if (p >= e || *p != '"') fail("string"); p++;
            Json j; j.type = STR;
            while (p < e && *p != '"') {
                if (*p == '\\') {
                    p++; if (p >= e) fail("escape");
                    switch (*p) {
                        case 'n': j.s += '\n'; break; case 't': j.s += '\t'; break; case 'r': j.s += '\r'; break;
                        case 'b': j.s += '\b'; break; case 'f': j.s += '\f'; break;
                        case 'u': { if (e - p < 5) fail("u"); char h[5] = {p[1], p[2], p[3], p[4], 0}; j.s += (char)strtol(h, nullptr, 16); p += 4; break; }
                        default: j.s += *p;
                    }
                    p++;
                } else j.s += *p++;
            }
            if (p >= e) fail("unterminated"); p++;
            return j;
        }
    };
    static Json parse(const std::string& text) { P ps{text.data(), text.data() + text.size()}; return ps.val(); }
    static Json parse_file(const std::string& path) {
        FILE* f = fopen(path.c_str(), "rb");
        if (!f) throw std::runtime_error("cannot open " + path);
        std::string t; char buf[65536]; size_t n;
        while ((n = fread(buf, 1, sizeof buf, f)) > 0) t.append(buf, n);
        fclose(f);
        return parse(t);
    }
};
