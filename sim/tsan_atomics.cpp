// T-flavour only: g++ -fsanitize=thread turns every std::atomic operation of instrumented code (tulz, harness) into a call
// of __tsan_atomicN_*.  Defining those entry points in the executable puts a scheduling point in front of each of them and
// then forwards to the real ThreadSanitizer implementation, so code that synchronises through atomics instead of mutexes is
// explored at atomic-operation granularity.  In the other flavours nothing references these symbols.
#include <dlfcn.h>
#include <unistd.h>

#include "detsim.h"

#include <atomic>
namespace {
template <class F>
F resolve(std::atomic<void*>& slot, const char* name) {  // no guarded function-local statics in seam code (see detsim.cpp)
    void* p = slot.load(std::memory_order_acquire);
    if (!p) {
        p = dlsym(RTLD_NEXT, name);
        if (!p) _exit(13);
        slot.store(p, std::memory_order_release);
    }
    return reinterpret_cast<F>(p);
}
}  // namespace
#define REALFN(type, name) ([]() -> type { static std::atomic<void*> slot{nullptr}; return resolve<type>(slot, name); }())

typedef char a8;
typedef short a16;
typedef int a32;
typedef long a64;
typedef int morder;

#define ATOMIC_FUNCS(N)                                                                                                     \
    extern "C" a##N __tsan_atomic##N##_load(const volatile a##N* a, morder mo) {                                             \
        auto r = REALFN(a##N (*)(const volatile a##N*, morder), "__tsan_atomic" #N "_load");                           \
        sim::atomic_point();                                                                                                \
        return r(a, mo);                                                                                                    \
    }                                                                                                                       \
    extern "C" void __tsan_atomic##N##_store(volatile a##N* a, a##N v, morder mo) {                                          \
        auto r = REALFN(void (*)(volatile a##N*, a##N, morder), "__tsan_atomic" #N "_store");                          \
        sim::atomic_point();                                                                                                \
        r(a, v, mo);                                                                                                        \
    }                                                                                                                       \
    extern "C" int __tsan_atomic##N##_compare_exchange_strong(volatile a##N* a, a##N* c, a##N v, morder mo, morder fmo) {    \
        auto r = REALFN(int (*)(volatile a##N*, a##N*, a##N, morder, morder), "__tsan_atomic" #N "_compare_exchange_strong"); \
        sim::atomic_point();                                                                                                \
        return r(a, c, v, mo, fmo);                                                                                         \
    }                                                                                                                       \
    extern "C" int __tsan_atomic##N##_compare_exchange_weak(volatile a##N* a, a##N* c, a##N v, morder mo, morder fmo) {      \
        auto r = REALFN(int (*)(volatile a##N*, a##N*, a##N, morder, morder), "__tsan_atomic" #N "_compare_exchange_weak"); \
        sim::atomic_point();                                                                                                \
        return r(a, c, v, mo, fmo);                                                                                         \
    }                                                                                                                       \
    extern "C" a##N __tsan_atomic##N##_compare_exchange_val(volatile a##N* a, a##N c, a##N v, morder mo, morder fmo) {       \
        auto r = REALFN(a##N (*)(volatile a##N*, a##N, a##N, morder, morder), "__tsan_atomic" #N "_compare_exchange_val"); \
        sim::atomic_point();                                                                                                \
        return r(a, c, v, mo, fmo);                                                                                         \
    }                                                                                                                       \
    ATOMIC_RMW(N, exchange) ATOMIC_RMW(N, fetch_add) ATOMIC_RMW(N, fetch_sub) ATOMIC_RMW(N, fetch_and) ATOMIC_RMW(N, fetch_or) \
    ATOMIC_RMW(N, fetch_xor) ATOMIC_RMW(N, fetch_nand)

#define ATOMIC_RMW(N, op)                                                                                   \
    extern "C" a##N __tsan_atomic##N##_##op(volatile a##N* a, a##N v, morder mo) {                           \
        auto r = REALFN(a##N (*)(volatile a##N*, a##N, morder), "__tsan_atomic" #N "_" #op);           \
        sim::atomic_point();                                                                                \
        return r(a, v, mo);                                                                                 \
    }

ATOMIC_FUNCS(8)
ATOMIC_FUNCS(16)
ATOMIC_FUNCS(32)
ATOMIC_FUNCS(64)

extern "C" void __tsan_atomic_thread_fence(morder mo) {
    auto r = REALFN(void (*)(morder), "__tsan_atomic_thread_fence");
    sim::atomic_point();
    r(mo);
}
