// detsim core: scheduler + pthread / clock / sleep seams.  Compiled WITHOUT -fsanitize=thread in every flavour.
#include "detsim.h"

#include <dlfcn.h>
#include <errno.h>
#include <linux/futex.h>
#include <pthread.h>
#include <sched.h>
#include <stdarg.h>
#include <stdio.h>
#include <stdlib.h>
#include <string.h>
#include <sys/syscall.h>
#include <sys/time.h>
#include <time.h>
#include <unistd.h>

#include <algorithm>
#include <atomic>
#include <unordered_map>

// ---------------------------------------------------------------- ThreadSanitizer glue (weak: absent in other flavours)
extern "C" {
void __tsan_acquire(void*) __attribute__((weak));
void __tsan_release(void*) __attribute__((weak));
void AnnotateIgnoreReadsBegin(const char*, int) __attribute__((weak));
void AnnotateIgnoreReadsEnd(const char*, int) __attribute__((weak));
void AnnotateIgnoreWritesBegin(const char*, int) __attribute__((weak));
void AnnotateIgnoreWritesEnd(const char*, int) __attribute__((weak));
}
namespace {
struct Ign {  // everything the simulator itself touches is invisible to TSan
    Ign() {
        if (AnnotateIgnoreReadsBegin) {
            AnnotateIgnoreReadsBegin(__FILE__, __LINE__);
            AnnotateIgnoreWritesBegin(__FILE__, __LINE__);
        }
    }
    ~Ign() {
        if (AnnotateIgnoreReadsBegin) {
            AnnotateIgnoreWritesEnd(__FILE__, __LINE__);
            AnnotateIgnoreReadsEnd(__FILE__, __LINE__);
        }
    }
};
inline void hb_acquire(void* p) {
    if (__tsan_acquire) __tsan_acquire(p);
}
inline void hb_release(void* p) {
    if (__tsan_release) __tsan_release(p);
}
}  // namespace

namespace sim {

uint64_t g_probes[64];
void probe(int id, uint32_t n) {
    Ign ig;
    if (id >= 0 && id < 64) g_probes[id] += n;
}

uint64_t mix(uint64_t a, uint64_t b) {
    uint64_t z = a + 0x9E3779B97F4A7C15ull * (b + 1);
    z = (z ^ (z >> 30)) * 0xBF58476D1CE4E5B9ull;
    z = (z ^ (z >> 27)) * 0x94D049BB133111EBull;
    return z ^ (z >> 31);
}
uint64_t Rng::next() {
    s += 0x9E3779B97F4A7C15ull;
    uint64_t z = s;
    z = (z ^ (z >> 30)) * 0xBF58476D1CE4E5B9ull;
    z = (z ^ (z >> 27)) * 0x94D049BB133111EBull;
    return z ^ (z >> 31);
}

// ---------------------------------------------------------------- state
namespace {

struct SimThread {
    int id = 0;
    std::atomic<int> go{0};
    ThreadState state = T_RUNNABLE;
    void* obj = nullptr;         // mutex (T_BLK_MUTEX) or condvar (T_BLK_COND)
    void* cond_mutex = nullptr;  // mutex to re-acquire after a condvar wait
    bool timed = false, timed_out = false;
    int64_t wake_at = 0;         // mono ms (T_SLEEPING / timed cond wait)
    int join_target = -1;
    int futex_val = 0;
    const std::function<bool()>* pred = nullptr;
    bool poll_blocked = false;
    int tag = 0;
    bool started = false;
    uint32_t created_step = 0;
    pthread_t real{};
    bool detached = false, joined = false, reaped = false;
    void* (*fn)(void*) = nullptr;
    void* arg = nullptr;
    void* ret = nullptr;
    // strategies
    uint64_t prio = 0;
    bool victim = false;
    uint32_t starve_from = 0, starve_to = 0;
};

struct MutexSt {
    int owner = -1;
    int count = 0;
    int idx = 0;
};
struct CondSt {
    std::vector<int> waiters;  // arrival order
    int idx = 0;
};
struct RwSt {
    int writer = -1;
    int readers = 0;
};

struct Global {
    bool running = false;
    bool dying = false;
    Config cfg;
    Rng rng{1};
    std::vector<SimThread*> threads;
    SimThread* current = nullptr;
    std::unordered_map<void*, MutexSt> mutexes;
    std::unordered_map<void*, CondSt> conds;
    std::unordered_map<void*, RwSt> rwlocks;
    int64_t mono_ms = 0;
    int64_t wall_off_ms = 0;
    Stats stats;
    std::vector<Decision> decisions;
    std::vector<Event> events;
    uint32_t seq = 0;
    // replay queues per kind
    std::vector<int32_t> q[6];
    size_t qpos[6] = {0, 0, 0, 0, 0, 0};
    std::vector<uint32_t> pct_points;
    int victims_left = 0;
    std::function<void(const Fatal&)> sink;
    std::function<std::string(const std::vector<ThreadInfo>&)> classifier;
};
Global G;
thread_local SimThread* tl_me = nullptr;

constexpr int64_t WALL_BASE_MS = 1700000000000ll;  // 2023-11-14, an arbitrary fixed epoch
constexpr int64_t MONO_BASE_MS = 1000000ll;

int kind_index(char k) {
    switch (k) {
        case 'S': return 0;
        case 'P': return 1;
        case 'W': return 2;
        case 'J': return 3;
        case 'F': return 5;
        default: return 4;
    }
}

using syscall_fn = long (*)(long, ...);
// No function-local static here: its initialisation guard (__cxa_guard_acquire) itself calls syscall(SYS_futex) when two
// threads race for it, which would re-enter the interposed syscall() below from a thread that does not hold the baton.
std::atomic<syscall_fn> g_real_syscall{nullptr};
syscall_fn real_syscall() {
    syscall_fn f = g_real_syscall.load(std::memory_order_acquire);
    if (!f) {
        f = reinterpret_cast<syscall_fn>(dlsym(RTLD_NEXT, "syscall"));
        g_real_syscall.store(f, std::memory_order_release);
    }
    return f;
}
long futex(std::atomic<int>* addr, int op, int val) {  // the simulator's own baton: always the real system call
    return real_syscall()(SYS_futex, reinterpret_cast<int*>(addr), op, val, nullptr, nullptr, 0);
}
void park_self(SimThread* t) {
    while (t->go.load(std::memory_order_acquire) == 0) futex(&t->go, FUTEX_WAIT_PRIVATE, 0);
    t->go.store(0, std::memory_order_relaxed);
}
void unpark(SimThread* t) {
    t->go.store(1, std::memory_order_release);
    futex(&t->go, FUTEX_WAKE_PRIVATE, 1);
}

void hash_in(uint64_t& h, uint64_t v) { h = mix(h ^ v, 0x51ED); }

void add_event(int tid, int kind, int a, int b) {
    Event e{G.seq++, (int16_t)tid, (int16_t)kind, a, b};
    G.events.push_back(e);
    hash_in(G.stats.event_hash, ((uint64_t)(uint16_t)tid << 48) ^ ((uint64_t)(uint16_t)kind << 32) ^ (uint32_t)a);
    hash_in(G.stats.event_hash, (uint32_t)b);
}

int g_dec_fd = -1;
void record(char kind, int32_t val) {
    G.decisions.push_back({kind, val});
    if (g_dec_fd >= 0) {
        char buf[24];
        int n = snprintf(buf, sizeof buf, "%c%d ", kind, val);
        (void)!write(g_dec_fd, buf, (size_t)n);
    }
    hash_in(G.stats.sched_hash, ((uint64_t)(uint8_t)kind << 32) ^ (uint32_t)val);
    hash_in(G.stats.event_hash, ((uint64_t)(uint8_t)kind << 40) ^ (uint32_t)val);
}

// next scripted value of this kind, if any
bool scripted(char kind, int32_t& val) {
    int k = kind_index(kind);
    if (G.qpos[k] < G.q[k].size()) {
        val = G.q[k][G.qpos[k]++];
        return true;
    }
    return false;
}

[[noreturn]] void fatal(const std::string& kind, const std::string& vclass, const std::string& detail) {
    G.dying = true;
    Fatal f{kind, vclass, detail};
    if (G.sink) G.sink(f);
    fprintf(stderr, "detsim fatal: %s %s %s\n", kind.c_str(), vclass.c_str(), detail.c_str());
    _exit(12);
}

const char* state_name(ThreadState s) {
    switch (s) {
        case T_RUNNABLE: return "runnable";
        case T_BLK_MUTEX: return "blk-mutex";
        case T_BLK_COND: return "blk-cond";
        case T_BLK_JOIN: return "blk-join";
        case T_BLK_PRED: return "blk-pred";
        case T_BLK_FUTEX: return "blk-futex";
        case T_SLEEPING: return "sleeping";
        case T_DONE: return "done";
    }
    return "?";
}

bool enabled(SimThread* t) {
    switch (t->state) {
        case T_RUNNABLE: return !t->poll_blocked;
        case T_BLK_MUTEX: {
            auto it = G.mutexes.find(t->obj);
            return it == G.mutexes.end() || it->second.owner == -1;
        }
        case T_BLK_COND: return false;
        case T_BLK_FUTEX: return *reinterpret_cast<volatile int*>(t->obj) != t->futex_val;  // word changed (even by a non-simulated thread): legal early return
        case T_BLK_JOIN: return G.threads[t->join_target]->state == T_DONE;
        case T_BLK_PRED: return (*t->pred)();
        case T_SLEEPING: return G.mono_ms >= t->wake_at;
        case T_DONE: return false;
    }
    return false;
}

void wake_cond_waiter(SimThread* w, int how) {
    auto& cs = G.conds[w->obj];
    cs.waiters.erase(std::remove(cs.waiters.begin(), cs.waiters.end(), w->id), cs.waiters.end());
    w->state = T_BLK_MUTEX;
    w->obj = w->cond_mutex;
    add_event(G.current ? G.current->id : -1, EV_WAKE, w->id, how);
}

void fire_timers() {
    for (auto* t : G.threads)
        if (t->state == T_BLK_COND && t->timed && G.mono_ms >= t->wake_at) {
            t->timed_out = true;
            wake_cond_waiter(t, 2);
        } else if (t->state == T_BLK_FUTEX && t->timed && G.mono_ms >= t->wake_at) {
            t->timed_out = true;
            t->state = T_RUNNABLE;
        }
}

[[noreturn]] void deadlock() {
    std::vector<ThreadInfo> ti;
    std::string detail;
    for (auto* t : G.threads) {
        ti.push_back({t->id, t->state, t->tag, t->started});
        char buf[96];
        snprintf(buf, sizeof buf, "T%d:%s(tag=%d) ", t->id, state_name(t->state), t->tag);
        detail += buf;
    }
    std::string cls = G.classifier ? G.classifier(ti) : std::string();
    if (cls.empty()) cls = "deadlock";
    fatal("deadlock", cls, detail);
}

// The heart: called by the baton holder `me` with me->state already set. Returns when `me` is chosen again
// (never returns for a DONE thread: the OS thread simply continues into its teardown without the baton).
void schedule(SimThread* me) {
    if (G.dying) return;  // a fatal outcome is being reported: the reporter keeps the baton
    auto& st = G.stats;
    if (++st.steps > (uint32_t)G.cfg.step_cap) fatal("stepcap", "stepcap", "step cap exceeded");
    // clock: deterministic function of (seed, step)
    if (G.cfg.clock_step_max_ms > 0)
        G.mono_ms += (int64_t)(mix(G.cfg.sched_seed ^ 0xC10C, st.steps) % (uint64_t)(G.cfg.clock_step_max_ms + 1));
    fire_timers();

    // ---- fault: spurious wake-up of one condvar waiter
    if (G.cfg.spurious_rate > 0) {
        std::vector<SimThread*> cw;
        for (auto* t : G.threads)
            if (t->state == T_BLK_COND || t->state == T_BLK_FUTEX) cw.push_back(t);
        if (!cw.empty()) {
            int32_t v = -1;
            if (G.cfg.replay) {
                if (!scripted('P', v)) v = -1;
                bool ok = false;
                for (auto* t : cw) ok |= (t->id == v);
                if (!ok) {
                    if (v != -1) st.diverged = true;
                    v = -1;
                }
            } else if (G.rng.chance(G.cfg.spurious_rate)) {
                v = cw[G.rng.below((uint32_t)cw.size())]->id;
            }
            record('P', v);
            if (v >= 0) {
                st.spurious++;
                if (G.threads[v]->state == T_BLK_FUTEX) G.threads[v]->state = T_RUNNABLE;  // FUTEX_WAIT may return spuriously
                else wake_cond_waiter(G.threads[v], 1);
            }
        }
    }
    // ---- fault: wall clock jump
    if (G.cfg.clock_jump_rate > 0) {
        int32_t v = 0;
        if (G.cfg.replay) {
            if (!scripted('J', v)) v = 0;
        } else if (G.rng.chance(G.cfg.clock_jump_rate)) {
            v = (int32_t)((G.rng.below(2) ? 1 : -1) * G.cfg.clock_jump_ms);
        }
        record('J', v);
        if (v != 0) {
            st.clock_jumps++;
            G.wall_off_ms += v;
            add_event(me->id, EV_CLOCKJUMP, v, 0);
        }
    }

    // ---- enabled set (ordered by thread id)
    std::vector<SimThread*> en;
    for (auto* t : G.threads)
        if (enabled(t)) en.push_back(t);
    if (en.empty()) {
        // advance the clock to the earliest timer, if any
        int64_t best = -1;
        for (auto* t : G.threads)
            if (t->state == T_SLEEPING || ((t->state == T_BLK_COND || t->state == T_BLK_FUTEX) && t->timed))
                if (best < 0 || t->wake_at < best) best = t->wake_at;
        if (best >= 0) {
            if (best > G.mono_ms) G.mono_ms = best;
            fire_timers();
            for (auto* t : G.threads)
                if (enabled(t)) en.push_back(t);
        }
    }
    if (en.empty()) {
        bool all_done = true;
        for (auto* t : G.threads) all_done &= (t->state == T_DONE);
        if (all_done) return;  // last thread leaving
        deadlock();
    }

    // ---- strategy bookkeeping that depends on the step count
    if (G.cfg.strategy == PCT && !G.cfg.replay)
        for (size_t i = 0; i < G.pct_points.size(); i++)
            if (G.pct_points[i] == st.steps && me->state != T_DONE) me->prio = i;  // drop below every initial priority

    SimThread* next = nullptr;
    bool me_enabled = std::find(en.begin(), en.end(), me) != en.end();
    auto dflt = [&]() { return me_enabled ? me : en[0]; };
    if (en.size() == 1) {
        next = en[0];
    } else {
        st.choice_points++;
        if (G.cfg.replay) {
            int32_t v;
            if (!scripted('S', v)) v = -1;
            if (v >= 0) {
                for (auto* t : en)
                    if (t->id == v) next = t;
                if (!next) st.diverged = true;
            }
            if (!next) next = dflt();
        } else {
            switch (G.cfg.strategy) {
                case STICKY:
                    if (me_enabled && G.rng.chance(G.cfg.sticky_p)) next = me;
                    else next = en[G.rng.below((uint32_t)en.size())];
                    break;
                case PCT: {
                    for (auto* t : en)
                        if (!next || t->prio > next->prio) next = t;
                    break;
                }
                case STARVE: {
                    std::vector<SimThread*> ok;
                    for (auto* t : en)
                        if (!(t->victim && st.steps >= t->starve_from && st.steps < t->starve_to)) ok.push_back(t);
                    if (ok.empty()) ok = en;
                    else st.starved_steps += (uint32_t)(en.size() - ok.size());
                    bool me_ok = std::find(ok.begin(), ok.end(), me) != ok.end();
                    if (me_ok && G.rng.chance(0.5)) next = me;
                    else next = ok[G.rng.below((uint32_t)ok.size())];
                    break;
                }
                default: next = en[G.rng.below((uint32_t)en.size())];
            }
        }
        record('S', next->id);
    }

    if (next != me) {
        st.switches++;
        for (auto* t : G.threads) t->poll_blocked = false;  // somebody else runs: pollers may look again
    }
    if (!next->started) {
        next->started = true;
        if (st.steps - next->created_step > 8) st.late_starts++;
    }
    G.current = next;
    if (next == me) return;
    bool done = (me->state == T_DONE);
    unpark(next);
    if (!done) park_self(me);
}

void pre_op(SimThread* me) {
    me->state = T_RUNNABLE;
    schedule(me);
}
// A second scheduling point right AFTER an operation: code that follows a release (or an acquisition) without any further
// synchronisation call — e.g. a flag re-checked after unlocking — can then be overtaken by the threads the operation enabled.
void post_op(SimThread* me) {
    if (!G.cfg.post_op_points) return;
    me->state = T_RUNNABLE;
    schedule(me);
}

void reset_run(const Config& cfg) {
    for (auto* t : G.threads) delete t;
    G.threads.clear();
    G.mutexes.clear();
    G.conds.clear();
    G.rwlocks.clear();
    G.cfg = cfg;
    G.dying = false;
    G.rng = Rng(cfg.sched_seed);
    G.mono_ms = 0;
    G.wall_off_ms = 0;
    G.stats = Stats();
    G.decisions.clear();
    G.events.clear();
    G.seq = 0;
    for (int k = 0; k < 6; k++) {
        G.q[k].clear();
        G.qpos[k] = 0;
    }
    if (cfg.replay)
        for (auto& d : cfg.script) G.q[kind_index(d.kind)].push_back(d.val);
    G.pct_points.clear();
    if (cfg.strategy == PCT && !cfg.replay)
        for (int i = 0; i < cfg.pct_depth; i++) G.pct_points.push_back(1 + G.rng.below((uint32_t)std::max(1, cfg.len_guess)));
    G.victims_left = (cfg.strategy == STARVE) ? cfg.starve_victims : 0;
}

SimThread* new_thread() {
    auto* t = new SimThread();
    t->id = (int)G.threads.size();
    t->created_step = G.stats.steps;
    if (!G.cfg.replay) {
        if (G.cfg.strategy == PCT) t->prio = (((uint64_t)G.rng.below(1u << 20)) << 8 | (uint64_t)t->id) + 64;
        if (G.victims_left > 0 && t->id != 0 && G.rng.chance(0.5)) {
            G.victims_left--;
            t->victim = true;
            t->starve_from = G.stats.steps + G.rng.below((uint32_t)std::max(1, G.cfg.len_guess / 2));
            t->starve_to = t->starve_from + (uint32_t)G.cfg.starve_window;
        }
    }
    G.threads.push_back(t);
    G.stats.threads = (uint32_t)G.threads.size();
    return t;
}

// ---- real functions
// Resolved lazily into a constant-initialised atomic slot: NO function-local static with a dynamic initialiser, because
// the guard of such a static (__cxa_guard_acquire) blocks through syscall(SYS_futex) when two threads race for it — and
// syscall() is one of the seams.
template <class F>
F resolve(std::atomic<void*>& slot, const char* name) {
    void* p = slot.load(std::memory_order_acquire);
    if (!p) {
        p = dlsym(RTLD_NEXT, name);
        if (!p) {
            fprintf(stderr, "detsim: dlsym(%s) failed\n", name);
            _exit(13);
        }
        slot.store(p, std::memory_order_release);
    }
    return reinterpret_cast<F>(p);
}
#define REAL(ret, name, ...)                       \
    using name##_fn = ret (*)(__VA_ARGS__);        \
    static std::atomic<void*> slot_##name{nullptr}; \
    name##_fn real_##name = resolve<name##_fn>(slot_##name, #name)

void* trampoline(void* p) {
    auto* me = static_cast<SimThread*>(p);
    park_self(me);  // wait until scheduled for the first time
    tl_me = me;     // only now: a thread that does not hold the baton must never look like a simulated thread to the seams
    void* r;
    {
        Ign ig;
        add_event(me->id, EV_START, 0, 0);
    }
    r = me->fn(me->arg);
    {
        Ign ig;
        me->ret = r;
        me->state = T_DONE;
        add_event(me->id, EV_EXIT, 0, 0);
        tl_me = nullptr;
        schedule(me);  // hands the baton on; does not park
    }
    return r;
}

void model_unlock(SimThread* me, void* m) {
    auto& ms = G.mutexes[m];
    if (ms.owner == me->id && --ms.count <= 0) {
        ms.owner = -1;
        ms.count = 0;
    }
}

bool is_recursive(pthread_mutex_t* m) { return (m->__data.__kind & 3) == PTHREAD_MUTEX_RECURSIVE_NP; }

int model_lock(SimThread* me, pthread_mutex_t* m, bool try_only) {
    pre_op(me);
    auto& ms = G.mutexes[m];
    if (ms.owner == -1) {
        ms.owner = me->id;
        ms.count = 1;
        return 0;
    }
    if (ms.owner == me->id && is_recursive(m)) {
        ms.count++;
        return 0;
    }
    if (try_only) return EBUSY;
    G.stats.mutex_contended++;
    me->state = T_BLK_MUTEX;  // (self-deadlock on a normal mutex blocks forever, as in glibc)
    me->obj = m;
    add_event(me->id, EV_MBLOCK, me->tag, 0);
    schedule(me);
    auto& ms2 = G.mutexes[m];
    ms2.owner = me->id;
    ms2.count = 1;
    me->state = T_RUNNABLE;
    return 0;
}

int model_cond_wait(SimThread* me, pthread_cond_t* c, pthread_mutex_t* m, bool timed, int64_t deadline_mono) {
    pre_op(me);
    auto& cs = G.conds[c];
    if (cs.idx == 0) cs.idx = (int)G.conds.size();
    model_unlock(me, m);
    cs.waiters.push_back(me->id);
    me->state = T_BLK_COND;
    me->obj = c;
    me->cond_mutex = m;
    me->timed = timed;
    me->timed_out = false;
    me->wake_at = deadline_mono;
    G.stats.cond_parks++;
    add_event(me->id, EV_PARK, me->tag, cs.idx);
    schedule(me);
    // woken (state was turned into T_BLK_MUTEX on our mutex) and chosen while the mutex is free
    auto& ms = G.mutexes[m];
    ms.owner = me->id;
    ms.count = 1;
    me->state = T_RUNNABLE;
    me->timed = false;
    return me->timed_out ? ETIMEDOUT : 0;
}

int model_cond_wake(SimThread* me, pthread_cond_t* c, bool all) {
    pre_op(me);
    auto it = G.conds.find(c);
    int n = it == G.conds.end() ? 0 : (int)it->second.waiters.size();
    add_event(me->id, EV_SIGNAL, n, all ? 1 : 0);
    if (n == 0) return 0;
    if (all) {
        std::vector<int> ws = it->second.waiters;
        for (int w : ws) wake_cond_waiter(G.threads[w], 0);
        return 0;
    }
    int idx = 0;
    if (n > 1 && G.cfg.random_signal) {
        int32_t v = 0;
        if (G.cfg.replay) {
            if (!scripted('W', v)) v = 0;
            if (v < 0 || v >= n) {
                G.stats.diverged = true;
                v = 0;
            }
        } else {
            v = (int32_t)G.rng.below((uint32_t)n);
        }
        record('W', v);
        if (v != 0) G.stats.signal_choices++;
        idx = v;
    }
    wake_cond_waiter(G.threads[it->second.waiters[idx]], 0);
    return 0;
}

int64_t ts_ms(const struct timespec* ts) { return (int64_t)ts->tv_sec * 1000 + ts->tv_nsec / 1000000; }

void model_sleep(SimThread* me, int64_t ms) {
    pre_op(me);
    if (ms <= 0) return;
    me->state = T_SLEEPING;
    me->wake_at = G.mono_ms + ms;
    add_event(me->id, EV_SLEEP, (int)std::min<int64_t>(ms, 1 << 30), 0);
    schedule(me);
    me->state = T_RUNNABLE;
}

}  // namespace

// ---------------------------------------------------------------- public API
bool active() { return tl_me != nullptr; }
int self() { return tl_me ? tl_me->id : -1; }
const Stats& stats() { return G.stats; }
const std::vector<Decision>& decisions() { return G.decisions; }
const std::vector<Event>& events() { return G.events; }
void set_fatal_sink(std::function<void(const Fatal&)> s) { G.sink = std::move(s); }
void set_decision_fd(int fd) { g_dec_fd = fd; }
void set_deadlock_classifier(std::function<std::string(const std::vector<ThreadInfo>&)> f) { G.classifier = std::move(f); }

void violation(const std::string& vclass, const std::string& detail) {
    Ign ig;
    fatal("violation", vclass, detail);
}

void run(const Config& cfg, const std::function<void()>& body) {
    (void)real_syscall();
    {
        Ign ig;
        reset_run(cfg);
        SimThread* me = new_thread();
        me->started = true;
        me->real = pthread_self();
        G.current = me;
        G.running = true;
        tl_me = me;
    }
    body();
    {
        Ign ig;
        SimThread* me = tl_me;
        // wait for every other simulated thread to finish
        std::function<bool()> all_done = [] {
            for (auto* t : G.threads)
                if (t->id != 0 && t->state != T_DONE) return false;
            return true;
        };
        if (!all_done()) {
            me->pred = &all_done;
            me->state = T_BLK_PRED;
            schedule(me);
            me->state = T_RUNNABLE;
            me->pred = nullptr;
        }
        me->state = T_DONE;
        G.stats.sim_ms = G.mono_ms;
        G.running = false;
        tl_me = nullptr;
    }
    // reap OS threads that were never joined (detached ones clean up themselves)
    REAL(int, pthread_join, pthread_t, void**);
    for (auto* t : G.threads)
        if (t->id != 0 && !t->detached && !t->reaped) {
            real_pthread_join(t->real, nullptr);
            t->reaped = true;
        }
}

void yield() {
    if (!tl_me) return;
    Ign ig;
    pre_op(tl_me);
}
void atomic_point() {
    if (!tl_me || !G.cfg.atomic_points) return;
    Ign ig;
    G.stats.atomic_points++;
    pre_op(tl_me);
}
void yield_poll() {
    if (!tl_me) return;
    Ign ig;
    tl_me->poll_blocked = true;
    tl_me->state = T_RUNNABLE;
    schedule(tl_me);
    tl_me->poll_blocked = false;
}
void wait_until(const std::function<bool()>& pred) {
    if (!tl_me) return;
    Ign ig;
    SimThread* me = tl_me;
    pre_op(me);
    if (pred()) return;
    me->pred = &pred;
    me->state = T_BLK_PRED;
    schedule(me);
    me->state = T_RUNNABLE;
    me->pred = nullptr;
}
void set_tag(int tag) {
    Ign ig;
    if (tl_me) tl_me->tag = tag;
}
int tag() { return tl_me ? tl_me->tag : 0; }
void ev(int kind, int a, int b) {
    Ign ig;
    add_event(tl_me ? tl_me->id : -1, kind, a, b);
}
uint32_t seqno() { return G.seq; }
int choose(int n, int dflt) {
    Ign ig;
    if (n <= 1) return 0;
    int32_t v = dflt;
    if (G.cfg.replay) {
        if (!scripted('H', v)) v = dflt;
        if (v < 0 || v >= n) {
            G.stats.diverged = true;
            v = dflt;
        }
    } else {
        v = (int32_t)G.rng.below((uint32_t)n);
    }
    record('H', v);
    return v;
}
int64_t now_ms() { return WALL_BASE_MS + G.mono_ms + G.wall_off_ms; }
void note_nontrivial() { G.stats.harness_nontrivial++; }
std::vector<ThreadInfo> threads() {
    Ign ig;
    std::vector<ThreadInfo> r;
    for (auto* t : G.threads) r.push_back({t->id, t->state, t->tag, t->started});
    return r;
}
ThreadInfo thread_info(int tid) {
    Ign ig;
    if (tid < 0 || tid >= (int)G.threads.size()) return {tid, T_DONE, 0, false};
    auto* t = G.threads[tid];
    return {t->id, t->state, t->tag, t->started};
}
int thread_count() { return (int)G.threads.size(); }

Untracked::Untracked() {
    if (AnnotateIgnoreReadsBegin) {
        AnnotateIgnoreReadsBegin(__FILE__, __LINE__);
        AnnotateIgnoreWritesBegin(__FILE__, __LINE__);
    }
}
Untracked::~Untracked() {
    if (AnnotateIgnoreReadsBegin) {
        AnnotateIgnoreWritesEnd(__FILE__, __LINE__);
        AnnotateIgnoreReadsEnd(__FILE__, __LINE__);
    }
}

void Barrier::arrive_and_wait() {
    {
        Ign ig;
        arrived++;
    }
    wait_until([this] { return arrived >= need; });
}

}  // namespace sim

// ---------------------------------------------------------------- interposed libc / libpthread entry points
using namespace sim;

extern "C" {

int pthread_mutex_lock(pthread_mutex_t* m) {
    REAL(int, pthread_mutex_lock, pthread_mutex_t*);
    SimThread* me = tl_me;
    if (!me) return real_pthread_mutex_lock(m);
    int r;
    {
        Ign ig;
        r = model_lock(me, m, false);
    }
    hb_acquire(m);
    {
        Ign ig;
        post_op(me);
    }
    return r;
}
int pthread_mutex_trylock(pthread_mutex_t* m) {
    REAL(int, pthread_mutex_trylock, pthread_mutex_t*);
    SimThread* me = tl_me;
    if (!me) return real_pthread_mutex_trylock(m);
    int r;
    {
        Ign ig;
        r = model_lock(me, m, true);
    }
    if (r == 0) hb_acquire(m);
    return r;
}
int pthread_mutex_unlock(pthread_mutex_t* m) {
    REAL(int, pthread_mutex_unlock, pthread_mutex_t*);
    SimThread* me = tl_me;
    if (!me) return real_pthread_mutex_unlock(m);
    hb_release(m);
    {
        Ign ig;
        pre_op(me);
        model_unlock(me, m);
        post_op(me);
    }
    return 0;
}
int pthread_mutex_destroy(pthread_mutex_t* m) {
    REAL(int, pthread_mutex_destroy, pthread_mutex_t*);
    if (tl_me) {
        Ign ig;
        G.mutexes.erase(m);
        return 0;
    }
    return real_pthread_mutex_destroy(m);
}

int pthread_cond_wait(pthread_cond_t* c, pthread_mutex_t* m) {
    REAL(int, pthread_cond_wait, pthread_cond_t*, pthread_mutex_t*);
    SimThread* me = tl_me;
    if (!me) return real_pthread_cond_wait(c, m);
    hb_release(m);
    int r;
    {
        Ign ig;
        r = model_cond_wait(me, c, m, false, 0);
    }
    hb_acquire(m);
    {
        Ign ig;
        post_op(me);
    }
    return r;
}
static int timed_cond_wait(SimThread* me, pthread_cond_t* c, pthread_mutex_t* m, clockid_t clk, const struct timespec* abs) {
    int64_t deadline;
    {
        Ign ig;
        int64_t a = ts_ms(abs);
        if (clk == CLOCK_REALTIME) deadline = a - WALL_BASE_MS - G.wall_off_ms;
        else deadline = a - MONO_BASE_MS;
    }
    hb_release(m);
    int r;
    {
        Ign ig;
        r = model_cond_wait(me, c, m, true, deadline);
    }
    hb_acquire(m);
    return r;
}
int pthread_cond_timedwait(pthread_cond_t* c, pthread_mutex_t* m, const struct timespec* abs) {
    REAL(int, pthread_cond_timedwait, pthread_cond_t*, pthread_mutex_t*, const struct timespec*);
    SimThread* me = tl_me;
    if (!me) return real_pthread_cond_timedwait(c, m, abs);
    return timed_cond_wait(me, c, m, CLOCK_REALTIME, abs);
}
int pthread_cond_clockwait(pthread_cond_t* c, pthread_mutex_t* m, clockid_t clk, const struct timespec* abs) {
    REAL(int, pthread_cond_clockwait, pthread_cond_t*, pthread_mutex_t*, clockid_t, const struct timespec*);
    SimThread* me = tl_me;
    if (!me) return real_pthread_cond_clockwait(c, m, clk, abs);
    return timed_cond_wait(me, c, m, clk, abs);
}
int pthread_cond_signal(pthread_cond_t* c) {
    REAL(int, pthread_cond_signal, pthread_cond_t*);
    SimThread* me = tl_me;
    if (!me) return real_pthread_cond_signal(c);
    Ign ig;
    int r = model_cond_wake(me, c, false);
    post_op(me);
    return r;
}
int pthread_cond_broadcast(pthread_cond_t* c) {
    REAL(int, pthread_cond_broadcast, pthread_cond_t*);
    SimThread* me = tl_me;
    if (!me) return real_pthread_cond_broadcast(c);
    Ign ig;
    int r = model_cond_wake(me, c, true);
    post_op(me);
    return r;
}
int pthread_cond_destroy(pthread_cond_t* c) {
    REAL(int, pthread_cond_destroy, pthread_cond_t*);
    if (tl_me) {
        Ign ig;
        G.conds.erase(c);
        return 0;
    }
    return real_pthread_cond_destroy(c);
}

// ---- reader/writer locks (not used by tulz today; modelled so that a std::shared_mutex based rewrite stays simulable)
static int model_rw(SimThread* me, pthread_rwlock_t* l, bool write, bool try_only) {
    Ign ig;
    pre_op(me);
    auto can = [l, write] {
        auto& s = G.rwlocks[l];
        return write ? (s.writer == -1 && s.readers == 0) : (s.writer == -1);
    };
    if (!can()) {
        if (try_only) return EBUSY;
        std::function<bool()> p = can;
        me->pred = &p;
        me->state = T_BLK_PRED;
        add_event(me->id, EV_MBLOCK, me->tag, 1);
        schedule(me);
        me->state = T_RUNNABLE;
        me->pred = nullptr;
    }
    auto& s = G.rwlocks[l];
    if (write) s.writer = me->id;
    else s.readers++;
    return 0;
}
int pthread_rwlock_rdlock(pthread_rwlock_t* l) {
    REAL(int, pthread_rwlock_rdlock, pthread_rwlock_t*);
    if (!tl_me) return real_pthread_rwlock_rdlock(l);
    int r = model_rw(tl_me, l, false, false);
    hb_acquire(l);
    return r;
}
int pthread_rwlock_wrlock(pthread_rwlock_t* l) {
    REAL(int, pthread_rwlock_wrlock, pthread_rwlock_t*);
    if (!tl_me) return real_pthread_rwlock_wrlock(l);
    int r = model_rw(tl_me, l, true, false);
    hb_acquire(l);
    return r;
}
int pthread_rwlock_tryrdlock(pthread_rwlock_t* l) {
    REAL(int, pthread_rwlock_tryrdlock, pthread_rwlock_t*);
    if (!tl_me) return real_pthread_rwlock_tryrdlock(l);
    int r = model_rw(tl_me, l, false, true);
    if (r == 0) hb_acquire(l);
    return r;
}
int pthread_rwlock_trywrlock(pthread_rwlock_t* l) {
    REAL(int, pthread_rwlock_trywrlock, pthread_rwlock_t*);
    if (!tl_me) return real_pthread_rwlock_trywrlock(l);
    int r = model_rw(tl_me, l, true, true);
    if (r == 0) hb_acquire(l);
    return r;
}
int pthread_rwlock_unlock(pthread_rwlock_t* l) {
    REAL(int, pthread_rwlock_unlock, pthread_rwlock_t*);
    SimThread* me = tl_me;
    if (!me) return real_pthread_rwlock_unlock(l);
    hb_release(l);
    Ign ig;
    pre_op(me);
    auto& s = G.rwlocks[l];
    if (s.writer == me->id) s.writer = -1;
    else if (s.readers > 0) s.readers--;
    return 0;
}

// ---- threads
int pthread_create(pthread_t* th, const pthread_attr_t* attr, void* (*fn)(void*), void* arg) {
    REAL(int, pthread_create, pthread_t*, const pthread_attr_t*, void* (*)(void*), void*);
    SimThread* me = tl_me;
    if (!me) return real_pthread_create(th, attr, fn, arg);
    SimThread* t;
    {
        Ign ig;
        pre_op(me);
        if (G.cfg.create_fail_rate > 0) {  // fault: thread creation fails once in a while (EAGAIN), as under resource pressure
            int32_t v = 0;
            if (G.cfg.replay) {
                if (!scripted('F', v)) v = 0;
            } else if (G.rng.chance(G.cfg.create_fail_rate)) {
                v = 1;
            }
            record('F', v);
            if (v) {
                G.stats.create_failures++;
                return EAGAIN;
            }
        }
        t = new_thread();
        t->fn = fn;
        t->arg = arg;
        t->state = T_RUNNABLE;
        add_event(me->id, EV_CREATE, t->id, 0);
    }
    int r = real_pthread_create(&t->real, attr, trampoline, t);
    if (r != 0) {
        fprintf(stderr, "detsim: real pthread_create failed: %d\n", r);
        _exit(13);
    }
    *th = t->real;
    {
        Ign ig;
        post_op(me);   // the new thread may run (even to completion) before its creator executes another instruction
    }
    return 0;
}
int pthread_join(pthread_t th, void** ret) {
    REAL(int, pthread_join, pthread_t, void**);
    SimThread* me = tl_me;
    if (!me) return real_pthread_join(th, ret);
    SimThread* t = nullptr;
    {
        Ign ig;
        pre_op(me);
        for (auto* x : G.threads)
            if (x->id != 0 && !x->reaped && pthread_equal(x->real, th)) t = x;
        if (t && t->state != T_DONE) {
            me->state = T_BLK_JOIN;
            me->join_target = t->id;
            add_event(me->id, EV_JOINBLOCK, t->id, 0);
            schedule(me);
            me->state = T_RUNNABLE;
        }
        if (t) t->reaped = true;
    }
    return real_pthread_join(th, ret);  // the OS thread only has libc teardown left
}
int pthread_detach(pthread_t th) {
    REAL(int, pthread_detach, pthread_t);
    if (tl_me) {
        Ign ig;
        for (auto* x : G.threads)
            if (x->id != 0 && pthread_equal(x->real, th)) x->detached = true;
    }
    return real_pthread_detach(th);
}

// ---- sleeping and yielding
int nanosleep(const struct timespec* req, struct timespec* rem) {
    REAL(int, nanosleep, const struct timespec*, struct timespec*);
    SimThread* me = tl_me;
    if (!me) return real_nanosleep(req, rem);
    Ign ig;
    model_sleep(me, ts_ms(req) + (req->tv_nsec % 1000000 ? 1 : 0));
    if (rem) rem->tv_sec = rem->tv_nsec = 0;
    return 0;
}
int clock_nanosleep(clockid_t clk, int flags, const struct timespec* req, struct timespec* rem) {
    REAL(int, clock_nanosleep, clockid_t, int, const struct timespec*, struct timespec*);
    SimThread* me = tl_me;
    if (!me) return real_clock_nanosleep(clk, flags, req, rem);
    Ign ig;
    int64_t ms = ts_ms(req);
    if (flags & TIMER_ABSTIME) ms -= (clk == CLOCK_REALTIME ? WALL_BASE_MS + G.wall_off_ms : MONO_BASE_MS) + G.mono_ms;
    model_sleep(me, ms);
    return 0;
}
int usleep(useconds_t us) {
    REAL(int, usleep, useconds_t);
    SimThread* me = tl_me;
    if (!me) return real_usleep(us);
    Ign ig;
    model_sleep(me, (us + 999) / 1000);
    return 0;
}
unsigned sleep(unsigned s) {
    REAL(unsigned, sleep, unsigned);
    SimThread* me = tl_me;
    if (!me) return real_sleep(s);
    Ign ig;
    model_sleep(me, (int64_t)s * 1000);
    return 0;
}
int sched_yield(void) {
    REAL(int, sched_yield, void);
    SimThread* me = tl_me;
    if (!me) return real_sched_yield();
    Ign ig;
    pre_op(me);
    return 0;
}

// ---- futex(2) through libc's syscall(): std::atomic::wait/notify, std::latch/barrier/semaphore, call_once, static-init guards
long syscall(long number, ...) {
    va_list ap;
    va_start(ap, number);
    long a[6];
    for (auto& x : a) x = va_arg(ap, long);
    va_end(ap);
    SimThread* me = tl_me;
    if (number != SYS_futex || !me || G.dying || G.current != me) return real_syscall()(number, a[0], a[1], a[2], a[3], a[4], a[5]);
    int* addr = reinterpret_cast<int*>(a[0]);
    int op = (int)a[1] & ~(FUTEX_PRIVATE_FLAG | FUTEX_CLOCK_REALTIME);
    int val = (int)a[2];
    Ign ig;
    if (op == FUTEX_WAIT || op == FUTEX_WAIT_BITSET) {
        pre_op(me);
        if (*reinterpret_cast<volatile int*>(addr) != val) {
            errno = EAGAIN;
            return -1;
        }
        const struct timespec* ts = reinterpret_cast<const struct timespec*>(a[3]);
        me->timed = ts != nullptr;
        me->timed_out = false;
        if (ts) {
            int64_t ms = ts_ms(ts);
            if (op == FUTEX_WAIT) me->wake_at = G.mono_ms + ms;  // relative
            else me->wake_at = ((int)a[1] & FUTEX_CLOCK_REALTIME) ? ms - WALL_BASE_MS - G.wall_off_ms : ms - MONO_BASE_MS;
        }
        me->state = T_BLK_FUTEX;
        me->obj = addr;
        me->futex_val = val;
        add_event(me->id, EV_FUTEX_WAIT, me->tag, 0);
        schedule(me);
        me->state = T_RUNNABLE;
        me->timed = false;
        if (me->timed_out) {
            errno = ETIMEDOUT;
            return -1;
        }
        return 0;
    }
    if (op == FUTEX_WAKE || op == FUTEX_WAKE_BITSET) {
        pre_op(me);
        int n = 0;
        for (auto* t : G.threads)
            if (n < val && t->state == T_BLK_FUTEX && t->obj == addr) {
                t->state = T_RUNNABLE;
                n++;
            }
        add_event(me->id, EV_FUTEX_WAKE, n, 0);
        post_op(me);
        return n;
    }
    return real_syscall()(number, a[0], a[1], a[2], a[3], a[4], a[5]);
}

// ---- clocks
int clock_gettime(clockid_t clk, struct timespec* ts) {
    REAL(int, clock_gettime, clockid_t, struct timespec*);
    if (!tl_me) return real_clock_gettime(clk, ts);
    Ign ig;
    int64_t ms = (clk == CLOCK_REALTIME || clk == CLOCK_REALTIME_COARSE) ? WALL_BASE_MS + G.mono_ms + G.wall_off_ms : MONO_BASE_MS + G.mono_ms;
    ts->tv_sec = ms / 1000;
    ts->tv_nsec = (ms % 1000) * 1000000;
    return 0;
}
int gettimeofday(struct timeval* tv, void* tz) {
    REAL(int, gettimeofday, struct timeval*, void*);
    if (!tl_me) return real_gettimeofday(tv, tz);
    Ign ig;
    int64_t ms = WALL_BASE_MS + G.mono_ms + G.wall_off_ms;
    tv->tv_sec = ms / 1000;
    tv->tv_usec = (ms % 1000) * 1000;
    return 0;
}
time_t time(time_t* t) {
    REAL(time_t, time, time_t*);
    if (!tl_me) return real_time(t);
    time_t v = (time_t)((WALL_BASE_MS + G.mono_ms + G.wall_off_ms) / 1000);
    if (t) *t = v;
    return v;
}

}  // extern "C"
