// Directory-stream and stdio-handle seam (path_sim).  opendir/readdir/closedir are served from a snapshot of the real
// directory in an order chosen by the simulator; fopen/fclose are counted, not altered.
#include <dirent.h>
#include <dlfcn.h>
#include <stdio.h>
#include <string.h>
#include <unistd.h>

#include <atomic>
#include <set>
#include <string>
#include <vector>

#include "detsim.h"

namespace {
struct FakeDir {
    std::vector<dirent> ents;
    size_t pos = 0;
    // POSIX: "the returned pointer may be overwritten by another call to readdir() on the same stream" — the simulated
    // stream does exactly that (one slot, rewritten by every call, freed by closedir), which glibc only does once per 32 KiB
    dirent* slot = nullptr;
    DIR* real = nullptr;   // kept open until closedir(): a simulated stream costs a descriptor exactly like a real one
    ~FakeDir() { delete slot; }
};
std::set<FakeDir*> g_fake;
sim::DirSimConfig g_cfg;
int g_handles = 0;
sim::DirSimStats g_stats;

template <class F>
F resolve(std::atomic<void*>& slot, const char* name) {  // no guarded function-local statics in seam code (see detsim.cpp)
    void* p = slot.load(std::memory_order_acquire);
    if (!p) {
        p = dlsym(RTLD_NEXT, name);
        if (!p) _exit(13);
        slot.store(p, std::memory_order_release);
    }
    return reinterpret_cast<F>(p);
}
#define RESOLVE(var, type, name)                  \
    static std::atomic<void*> slot_##var{nullptr}; \
    auto var = resolve<type>(slot_##var, name)
}  // namespace

namespace {
// lexical normalisation of an absolute or cwd-relative path ("." and ".." resolved textually)
std::string normalise(const char* name) {
    std::string p = name;
    if (p.empty() || p[0] != '/') {
        char buf[8192];
        if (getcwd(buf, sizeof buf)) p = std::string(buf) + "/" + p;
    }
    std::vector<std::string> parts;
    size_t i = 0;
    while (i < p.size()) {
        size_t e = p.find('/', i);
        std::string seg = p.substr(i, e == std::string::npos ? std::string::npos : e - i);
        if (seg == "..") { if (!parts.empty()) parts.pop_back(); }
        else if (!seg.empty() && seg != ".") parts.push_back(seg);
        if (e == std::string::npos) break;
        i = e + 1;
    }
    std::string r;
    for (auto& s : parts) r += "/" + s;
    return r.empty() ? "/" : r;
}
bool inside_root(const char* name) {
    if (g_cfg.root.empty()) return true;
    std::string n = normalise(name);
    return n == g_cfg.root || (n.size() > g_cfg.root.size() && n.compare(0, g_cfg.root.size(), g_cfg.root) == 0 && n[g_cfg.root.size()] == '/');
}
}  // namespace

namespace sim {
void set_dirsim(const DirSimConfig& c) { g_cfg = c; }
int open_handles() { return g_handles; }
DirSimStats dirsim_stats() { return g_stats; }
void reset_handle_count() { g_handles = 0; }
}  // namespace sim

extern "C" {

DIR* opendir(const char* name) {
    RESOLVE(r_opendir, DIR* (*)(const char*), "opendir");
    RESOLVE(r_readdir, dirent* (*)(DIR*), "readdir");
    RESOLVE(r_closedir, int (*)(DIR*), "closedir");
    if (!sim::active() || !g_cfg.enabled || !inside_root(name)) return r_opendir(name);
    DIR* d = r_opendir(name);
    if (!d) return nullptr;
    auto* f = new FakeDir();
    while (dirent* e = r_readdir(d)) f->ents.push_back(*e);
    f->real = d;
    // order decided by the simulator (Fisher-Yates over recorded choices), '.' and '..' land anywhere
    bool moved = false;
    for (size_t i = 0; i + 1 < f->ents.size(); i++) {
        size_t j = i + (size_t)sim::choose((int)(f->ents.size() - i), 0);
        if (j != i) moved = true;
        std::swap(f->ents[i], f->ents[j]);
    }
    g_stats.streams++;
    g_stats.entries += f->ents.size();
    g_stats.reordered_streams += moved;
    if (g_cfg.unknown_dtype_rate > 0)
        for (auto& e : f->ents)
            if (sim::choose(4, 0) == 1) { e.d_type = DT_UNKNOWN; g_stats.unknown_dtype++; }
    if (f->ents.size() > 3) sim::note_nontrivial();
    g_fake.insert(f);
    g_handles++;
    return reinterpret_cast<DIR*>(f);
}

struct dirent* readdir(DIR* d) {
    RESOLVE(r_readdir, dirent* (*)(DIR*), "readdir");
    auto* f = reinterpret_cast<FakeDir*>(d);
    if (!g_fake.count(f)) return r_readdir(d);
    if (f->pos >= f->ents.size()) return nullptr;
    if (!f->slot) f->slot = new dirent;
    memset(f->slot, 0x5a, sizeof(dirent));      // scribble over the previous entry first
    *f->slot = f->ents[f->pos++];
    return f->slot;
}
struct dirent64* readdir64(DIR* d) { return reinterpret_cast<dirent64*>(readdir(d)); }

int closedir(DIR* d) {
    RESOLVE(r_closedir, int (*)(DIR*), "closedir");
    auto* f = reinterpret_cast<FakeDir*>(d);
    if (!g_fake.count(f)) return r_closedir(d);
    g_fake.erase(f);
    if (f->real) r_closedir(f->real);
    delete f;
    g_handles--;
    return 0;
}

FILE* fopen(const char* path, const char* mode) {
    RESOLVE(r_fopen, FILE* (*)(const char*, const char*), "fopen");
    FILE* f = r_fopen(path, mode);
    if (f && sim::active() && g_cfg.enabled) g_handles++;
    return f;
}
FILE* fopen64(const char* path, const char* mode) {
    RESOLVE(r_fopen, FILE* (*)(const char*, const char*), "fopen64");
    FILE* f = r_fopen(path, mode);
    if (f && sim::active() && g_cfg.enabled) g_handles++;
    return f;
}
int fclose(FILE* f) {
    RESOLVE(r_fclose, int (*)(FILE*), "fclose");
    if (sim::active() && g_cfg.enabled) g_handles--;
    return r_fclose(f);
}

}  // extern "C"
